package main

// Must-fail self-test corpus: deliberate property-breaking edits applied in memory (packages
// overlay); each must make a named obligation of its property fail.

import (
	"encoding/json"
	"fmt"
	"os"
	"path/filepath"
	"strings"
	"sync"
)

type mutant struct {
	ID       string `json:"id"`
	Property string `json:"property"`
	File     string `json:"file"`
	Search   string `json:"search"`
	Replace  string `json:"replace"`
	Expect   string `json:"expect"` // substring of the obligation name expected to fail ("" = any)
	Note     string `json:"note"`
	Suite    string `json:"suite,omitempty"`
	Patch    string `json:"patch,omitempty"` // alternatively: path of a unified diff (seeded changes)
	Disabled string `json:"disabled,omitempty"`
}

var genMu sync.Mutex

type mutantOutcome struct {
	m       mutant
	caught  bool
	failed  []string
	problem string
}

func loadMutants(o *options) ([]mutant, error) {
	var all []mutant
	files, _ := filepath.Glob(filepath.Join(o.verif, "selftest", "*.json"))
	for _, f := range files {
		data, err := os.ReadFile(f)
		if err != nil {
			return nil, err
		}
		var ms []mutant
		if err := json.Unmarshal(data, &ms); err != nil {
			return nil, fmt.Errorf("%s: %v", f, err)
		}
		all = append(all, ms...)
	}
	return all, nil
}

func runMutant(m mutant, o *options) mutantOutcome {
	out := mutantOutcome{m: m}
	path := filepath.Join(o.repo, m.File)
	src, err := os.ReadFile(path)
	if err != nil {
		out.problem = err.Error()
		return out
	}
	if !strings.Contains(string(src), m.Search) {
		out.problem = "search text not found (source has changed)"
		return out
	}
	mutated := strings.Replace(string(src), m.Search, m.Replace, 1)
	// loading and VC generation share package-level caches (lock sets, rename aliases): one mutant at a time;
	// the solver phase, which dominates, runs in parallel
	genMu.Lock()
	p, err := loadProg(o.repo, o.verif, map[string][]byte{path: []byte(mutated)}, o.mirror)
	if err != nil {
		genMu.Unlock()
		out.problem = "mutant does not load: " + err.Error()
		return out
	}
	cr := generate(p, m.Property)
	genMu.Unlock()
	oo := *o
	oo.tier = "quick"
	discharge(cr.obls, &oo)
	for _, ob := range cr.obls {
		bad := ob.Status == "failed" || ob.Status == "cover-failed"
		if !bad {
			continue
		}
		out.failed = append(out.failed, ob.Name)
		if m.Expect == "" || strings.Contains(ob.Name, m.Expect) {
			out.caught = true
		}
	}
	if len(out.failed) > 0 && !out.caught {
		// caught by a different obligation than expected: still a detection
		out.caught = true
		out.problem = "detected by another obligation than the one named in 'expect'"
	}
	return out
}

func runSelftest(args []string, o *options) int {
	ms, err := loadMutants(o)
	if err != nil {
		fmt.Println(err)
		return 2
	}
	want := map[string]bool{}
	for _, a := range args {
		want[a] = true
	}
	var sel []mutant
	for _, m := range ms {
		if m.Disabled != "" {
			continue
		}
		if len(want) > 0 && !want[m.ID] && !want[m.Property] {
			continue
		}
		sel = append(sel, m)
	}
	results := make([]mutantOutcome, len(sel))
	var wg sync.WaitGroup
	sem := make(chan struct{}, 4)
	for i, m := range sel {
		i, m := i, m
		wg.Add(1)
		sem <- struct{}{}
		go func() {
			defer wg.Done()
			defer func() { <-sem }()
			results[i] = runMutant(m, o)
		}()
	}
	wg.Wait()
	missed := 0
	for _, r := range results {
		st := "CAUGHT"
		if !r.caught {
			st = "MISSED"
			missed++
		}
		fmt.Printf("%-7s %-6s %-4s %-55s %s %s\n", st, r.m.ID, r.m.Property, r.m.Note, strings.Join(shorten(r.failed, 3), ","), r.problem)
	}
	fmt.Printf("selftest: %d mutants, %d caught, %d missed\n", len(results), len(results)-missed, missed)
	if missed > 0 {
		return 1
	}
	return 0
}

func shorten(xs []string, n int) []string {
	if len(xs) > n {
		return append(append([]string{}, xs[:n]...), fmt.Sprintf("(+%d)", len(xs)-n))
	}
	return xs
}
