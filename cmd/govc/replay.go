package main

// Replay of solver counterexamples against the real code: a per-function driver (an in-package Go
// test injected through `go test -overlay`, nothing is written into /repo) receives the model's
// input values as JSON, runs the real function and checks the violated clause concretely.

import (
	"bytes"
	"context"
	"encoding/json"
	"fmt"
	"os"
	"os/exec"
	"path/filepath"
	"regexp"
	"strings"
	"time"
)

type replayResult struct {
	Driver     string            `json:"driver"`
	Inputs     map[string]string `json:"inputs"`
	Reproduced bool              `json:"reproduced"`
	Output     string            `json:"output"`
	Cmd        string            `json:"cmd"`
	Package    string            `json:"package"`
	Note       string            `json:"note,omitempty"`
}

var replayInputRe = regexp.MustCompile(`(?m)^//replay-input\s+(\w+)\s*:\s*(.+)$`)
var replayPkgRe = regexp.MustCompile(`(?m)^//replay-package\s+(\S+)`)

func driverPath(o *options, funcKey string) string {
	return filepath.Join(o.verif, "replay", "drivers", sanitize(funcKey)+"_test.go.txt")
}

// tryReplay evaluates the driver's input expressions in the model and runs the driver.
func tryReplay(p *Prog, ob *Obligation, model map[string]string, o *options) *replayResult {
	dp := driverPath(o, ob.FuncKey)
	src, err := os.ReadFile(dp)
	if err != nil {
		return nil
	}
	enc := ob.enc
	if enc == nil {
		return nil
	}
	rr := &replayResult{Driver: dp, Inputs: map[string]string{}}
	if m := replayPkgRe.FindSubmatch(src); m != nil {
		rr.Package = string(m[1])
	}
	// evaluate input expressions in the entry state
	var names []string
	var terms []string
	se := enc.specEnv(enc.entry, enc.entry, nil)
	nDecl, nAss := len(enc.sc.Decls), len(enc.sc.Asserts)
	for _, m := range replayInputRe.FindAllSubmatch(src, -1) {
		ex, err := parseSpecExpr(strings.TrimSpace(string(m[2])))
		if err != nil {
			rr.Note += fmt.Sprintf("bad replay-input %s: %v; ", m[1], err)
			continue
		}
		v, err := se.eval(ex)
		if err != nil {
			rr.Note += fmt.Sprintf("cannot evaluate replay-input %s: %v; ", m[1], err)
			continue
		}
		names = append(names, string(m[1]))
		terms = append(terms, v.t.S)
	}
	if len(terms) > 0 {
		// declarations made while evaluating must be visible; assertions added are definitional only
		q := ob.Script.Query(Not(ob.Goal), true, -1, ob.cutAsserts)
		_ = nDecl
		_ = nAss
		q = strings.Replace(q, "(get-model)\n", "(get-value ("+strings.Join(terms, " ")+"))\n", 1)
		res, _ := Solve(q, "quick", o.timeout, ob.Name+".values")
		if res.Answer == "sat" {
			vals := parseGetValue(res.Model, len(terms))
			for i, n := range names {
				if i < len(vals) {
					rr.Inputs[n] = vals[i]
				}
			}
		} else {
			rr.Note += "value query answered " + res.Answer + "; "
			return rr
		}
	}
	runDriver(p.repoDir, rr, ob.Name, o)
	return rr
}

// tryReplayNoModel runs the function's driver without model values (the driver falls back to its own defaults).
func tryReplayNoModel(p *Prog, ob *Obligation, o *options) *replayResult {
	dp := driverPath(o, ob.FuncKey)
	src, err := os.ReadFile(dp)
	if err != nil {
		return nil
	}
	rr := &replayResult{Driver: dp, Inputs: map[string]string{}, Note: "the solvers gave no model for this obligation; the driver used its built-in witness; "}
	if m := replayPkgRe.FindSubmatch(src); m != nil {
		rr.Package = string(m[1])
	}
	runDriver(p.repoDir, rr, ob.Name, o)
	return rr
}

// parseGetValue parses "((t1 v1) (t2 v2) ...)" returning the values in order.
func parseGetValue(out string, n int) []string {
	out = strings.TrimSpace(out)
	if !strings.HasPrefix(out, "(") {
		return nil
	}
	body := out[1:]
	var vals []string
	for len(vals) < n {
		body = strings.TrimLeft(body, " \n\t")
		if body == "" || body[0] != '(' {
			break
		}
		pair := readSexp(body)
		body = body[len(pair):]
		inner := strings.TrimSpace(pair[1 : len(pair)-1])
		term := readSexp(inner)
		val := strings.TrimSpace(inner[len(term):])
		vals = append(vals, normalizeValue(val))
	}
	return vals
}

func normalizeValue(v string) string {
	v = strings.TrimSpace(v)
	if iv, ok := modelInt(v); ok {
		return iv
	}
	// (/ a b) rationals and (- x)
	return v
}

func runDriver(repoDir string, rr *replayResult, oblName string, o *options) {
	runGoTestDriver(repoDir, rr, oblName, "TestGovcReplay", nil, 60)
}

// runGoTestDriver injects the driver file as an in-package test through `go test -overlay` (nothing is written into
// the repository) and runs the named test.
func runGoTestDriver(repoDir string, rr *replayResult, oblName, testName string, extraEnv []string, timeoutS int) {
	src, err := os.ReadFile(rr.Driver)
	if err != nil {
		rr.Note += err.Error()
		return
	}
	if rr.Package == "" {
		rr.Note += "driver has no //replay-package line; "
		return
	}
	tmp, err := os.MkdirTemp(os.Getenv("TMPDIR"), "govc-replay-")
	if err != nil {
		rr.Note += err.Error()
		return
	}
	defer os.RemoveAll(tmp)
	testFile := filepath.Join(tmp, "zz_govc_replay_test.go")
	os.WriteFile(testFile, src, 0o644)
	inputs := map[string]any{"obligation": oblName, "inputs": rr.Inputs}
	inData, _ := json.Marshal(inputs)
	inFile := filepath.Join(tmp, "input.json")
	os.WriteFile(inFile, inData, 0o644)
	ov := map[string]any{"Replace": map[string]string{
		filepath.Join(repoDir, rr.Package, "zz_govc_replay_test.go"): testFile,
	}}
	ovData, _ := json.Marshal(ov)
	ovFile := filepath.Join(tmp, "overlay.json")
	os.WriteFile(ovFile, ovData, 0o644)
	ctx, cancel := context.WithTimeout(context.Background(), time.Duration(timeoutS+120)*time.Second)
	defer cancel()
	args := []string{"test", "-overlay", ovFile, "-vet=off", "-v", "-count=1", "-timeout", fmt.Sprintf("%ds", timeoutS), "-run", "^" + testName + "$", "./" + rr.Package}
	cmd := exec.CommandContext(ctx, "go", args...)
	cmd.Dir = repoDir
	cmd.Env = append(os.Environ(), "GOFLAGS=-mod=mod", "GOPROXY=off", "GOSUMDB=off", "GOTOOLCHAIN=local", "GOVC_REPLAY_INPUT="+inFile)
	cmd.Env = append(cmd.Env, extraEnv...)
	var out bytes.Buffer
	cmd.Stdout = &out
	cmd.Stderr = &out
	cmd.Run()
	txt := out.String()
	if len(txt) > 4000 {
		txt = txt[:4000]
	}
	rr.Output = txt
	rr.Cmd = "cd " + repoDir + " && GOVC_REPLAY_INPUT=<inputs.json> go " + strings.Join(args, " ")
	rr.Reproduced = strings.Contains(txt, "GOVC-REPLAY: reproduced")
}

// cmdReplay re-runs the replay recorded in a replay file.
func cmdReplay(path string, o *options) int {
	data, err := os.ReadFile(path)
	if err != nil {
		fmt.Println(err)
		return 2
	}
	var content map[string]any
	if err := json.Unmarshal(data, &content); err != nil {
		fmt.Println(err)
		return 2
	}
	fmt.Printf("obligation: %v\n%v\n", content["obligation"], content["description"])
	if cls, _ := content["class"].(string); cls == "BOUNDED" {
		// re-run the bounded driver on the current tree: it stops at (and prints) the first failing input
		rr := &replayResult{Inputs: map[string]string{}}
		rr.Driver, _ = content["driver"].(string)
		if src, err := os.ReadFile(rr.Driver); err == nil {
			if m := replayPkgRe.FindSubmatch(src); m != nil {
				rr.Package = string(m[1])
			}
		}
		tier, _ := content["tier"].(string)
		runGoTestDriver(o.repo, rr, fmt.Sprint(content["obligation"]), "TestGovcBounded", []string{"GOVC_BOUNDED_TIER=" + tier}, 600)
		fmt.Println(rr.Output)
		if strings.Contains(rr.Output, "GOVC-BOUNDED: violated") {
			fmt.Println("replay: violation reproduced on the real code")
			return 1
		}
		fmt.Println("replay: not reproduced")
		return 0
	}
	rp, ok := content["replay"].(map[string]any)
	if !ok {
		fmt.Println("no concrete replay recorded for this obligation (no-failing-input-found); solver output:")
		fmt.Printf("%v\n", content["all_solvers"])
		return 1
	}
	rr := &replayResult{Inputs: map[string]string{}}
	rr.Driver, _ = rp["driver"].(string)
	rr.Package, _ = rp["package"].(string)
	if in, ok := rp["inputs"].(map[string]any); ok {
		for k, v := range in {
			rr.Inputs[k] = fmt.Sprint(v)
		}
	}
	runDriver(o.repo, rr, fmt.Sprint(content["obligation"]), o)
	fmt.Println(rr.Output)
	if rr.Reproduced {
		fmt.Println("replay: violation reproduced on the real code")
		return 1
	}
	fmt.Println("replay: not reproduced")
	return 0
}
