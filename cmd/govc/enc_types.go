package main

// Sorts, type identifiers, struct layouts and the symbolic state (versioned heaps).

import (
	"fmt"
	"go/types"
	"sort"
	"strings"
)

// TypeReg gives every Go type a short stable identifier and SMT sort. One per Enc (function).
type TypeReg struct {
	ids      map[string]string // full type string -> id
	used     map[string]bool
	tidNum   map[string]int // type id numbers for interface dynamic types
	modPath  string
	script   *Script
	dtDone   map[string]bool
	layouts  map[string]*structLayout
	dtFields map[string][]dtField // sort name -> fields (for model decoding / spec)
}

type dtField struct {
	Name string
	Sort string
	Type types.Type
}

type structLayout struct {
	span  int
	slots map[int]int // field index -> slot offset for embedded module structs
}

func newTypeReg(modPath string, sc *Script) *TypeReg {
	return &TypeReg{ids: map[string]string{}, used: map[string]bool{}, tidNum: map[string]int{}, modPath: modPath,
		script: sc, dtDone: map[string]bool{}, layouts: map[string]*structLayout{}, dtFields: map[string][]dtField{}}
}

func sanitize(s string) string {
	var b strings.Builder
	for _, r := range s {
		switch {
		case r >= 'a' && r <= 'z', r >= 'A' && r <= 'Z', r >= '0' && r <= '9':
			b.WriteRune(r)
		case r == '*':
			b.WriteString("p_")
		case r == '[':
			b.WriteString("s_")
		default:
			b.WriteByte('_')
		}
	}
	return b.String()
}

// typeID returns a short unique identifier for a type.
func (r *TypeReg) typeID(t types.Type) string {
	full := types.TypeString(t, nil)
	if id, ok := r.ids[full]; ok {
		return id
	}
	short := types.TypeString(t, func(p *types.Package) string { return p.Name() })
	id := sanitize(short)
	if len(id) > 60 {
		id = id[:60]
	}
	base := id
	for n := 2; r.used[id]; n++ {
		id = fmt.Sprintf("%s_%d", base, n)
	}
	r.used[id] = true
	r.ids[full] = id
	return id
}

// tid returns the numeric dynamic-type identifier used inside Iface values.
func (r *TypeReg) tid(t types.Type) int {
	full := types.TypeString(t, nil)
	if n, ok := r.tidNum[full]; ok {
		return n
	}
	n := len(r.tidNum) + 1
	r.tidNum[full] = n
	return n
}

func isAtomicScalar(t types.Type) (string, bool) {
	n, ok := t.(*types.Named)
	if !ok || n.Obj().Pkg() == nil || n.Obj().Pkg().Path() != "sync/atomic" {
		return "", false
	}
	switch n.Obj().Name() {
	case "Int64", "Uint64", "Int32", "Uint32", "Uintptr":
		return SInt, true
	case "Bool":
		return SBool, true
	}
	return "", false
}

func isTimeTime(t types.Type) bool {
	n, ok := t.(*types.Named)
	return ok && n.Obj().Pkg() != nil && n.Obj().Pkg().Path() == "time" && n.Obj().Name() == "Time"
}

// isModuleStruct reports whether t is a struct type whose fields are modelled (declared in the
// module under verification, or an anonymous struct).
func (r *TypeReg) isModuleStruct(t types.Type) (*types.Struct, bool) {
	if _, ok := isAtomicScalar(t); ok {
		return nil, false
	}
	if isTimeTime(t) {
		return nil, false
	}
	st, ok := t.Underlying().(*types.Struct)
	if !ok {
		return nil, false
	}
	if n, ok := t.(*types.Named); ok {
		if n.Obj().Pkg() == nil || !strings.HasPrefix(n.Obj().Pkg().Path(), r.modPath) {
			return nil, false
		}
	}
	return st, true
}

// sortOf maps a Go type to an SMT sort, declaring datatypes on demand.
func (r *TypeReg) sortOf(t types.Type) string {
	if s, ok := isAtomicScalar(t); ok {
		return s
	}
	if isTimeTime(t) {
		return SInt
	}
	switch u := t.Underlying().(type) {
	case *types.Basic:
		switch {
		case u.Info()&types.IsBoolean != 0:
			return SBool
		case u.Info()&types.IsInteger != 0:
			return SInt
		case u.Info()&types.IsFloat != 0:
			return SReal
		case u.Info()&types.IsString != 0:
			return SString
		case u.Kind() == types.UnsafePointer:
			return SInt
		case u.Kind() == types.UntypedNil:
			return SInt
		}
		return SInt
	case *types.Pointer, *types.Chan, *types.Signature, *types.Map:
		return SInt
	case *types.Slice:
		return SSlice
	case *types.Interface:
		return SIface
	case *types.Array:
		return ArraySort(SInt, r.sortOf(u.Elem()))
	case *types.Tuple:
		return "Tuple"
	case *types.Struct:
		st, ok := r.isModuleStruct(t)
		if !ok {
			return SInt // opaque external struct
		}
		name := "St_" + r.typeID(t)
		if !r.dtDone[name] {
			r.dtDone[name] = true
			var fs []string
			var dfs []dtField
			for i := 0; i < st.NumFields(); i++ {
				f := st.Field(i)
				fsort := r.sortOf(f.Type()) // declares nested datatypes first
				fname := fmt.Sprintf("%s_%s", name, fieldName(f, i))
				fs = append(fs, fmt.Sprintf("(%s %s)", fname, fsort))
				dfs = append(dfs, dtField{fieldName(f, i), fsort, f.Type()})
			}
			r.dtFields[name] = dfs
			r.script.Datatypes = append(r.script.Datatypes,
				fmt.Sprintf("(declare-datatypes ((%s 0)) (((mk_%s %s))))", name, name, strings.Join(fs, " ")))
		}
		return name
	}
	return SInt
}

func fieldName(f *types.Var, i int) string {
	if f.Name() == "_" || f.Name() == "" {
		return fmt.Sprintf("anon%d", i)
	}
	return f.Name()
}

// layout computes slot offsets for struct-typed fields (interior pointers are base+slot).
func (r *TypeReg) layout(t types.Type) *structLayout {
	key := types.TypeString(t, nil)
	if l, ok := r.layouts[key]; ok {
		return l
	}
	l := &structLayout{span: 1, slots: map[int]int{}}
	r.layouts[key] = l
	st, ok := t.Underlying().(*types.Struct)
	if !ok {
		return l
	}
	for i := 0; i < st.NumFields(); i++ {
		ft := st.Field(i).Type()
		if _, isScalarAtomic := isAtomicScalar(ft); isScalarAtomic || isTimeTime(ft) {
			continue
		}
		if _, isStruct := ft.Underlying().(*types.Struct); isStruct {
			l.slots[i] = l.span
			l.span += r.layout(ft).span
		}
	}
	return l
}

// zeroOf returns the zero value term of a type.
func (r *TypeReg) zeroOf(t types.Type) Term {
	s := r.sortOf(t)
	return r.zeroOfSort(s, t)
}

func (r *TypeReg) zeroOfSort(s string, t types.Type) Term {
	switch s {
	case SInt:
		if t != nil && isTimeTime(t) {
			return Term{"TIME_ZERO", SInt}
		}
		return IntLit(0)
	case SBool:
		return TFalse
	case SReal:
		return Term{"0.0", SReal}
	case SString:
		return Term{`""`, SString}
	case SSlice:
		return Term{"(mkslice 0 0)", SSlice}
	case SIface:
		return Term{"(mkiface 0 0)", SIface}
	}
	if strings.HasPrefix(s, "St_") {
		var args []Term
		for _, f := range r.dtFields[s] {
			args = append(args, r.zeroOfSort(f.Sort, f.Type))
		}
		if len(args) == 0 {
			return Term{"mk_" + s, s}
		}
		return App(s, "mk_"+s, args...)
	}
	if strings.HasPrefix(s, "(Array ") {
		k, v := splitArraySort(s)
		var et types.Type
		if t != nil {
			if a, ok := t.Underlying().(*types.Array); ok {
				et = a.Elem()
			}
		}
		return Term{fmt.Sprintf("((as const %s) %s)", s, r.zeroOfSort(v, et).S), s}
		_ = k
	}
	return IntLit(0)
}

// intRange returns the inclusive range of an integer type, if it is one.
func intRange(t types.Type) (lo, hi string, ok bool) {
	if _, isAt := isAtomicScalar(t); isAt {
		n := t.(*types.Named).Obj().Name()
		switch n {
		case "Int64":
			return "-9223372036854775808", "9223372036854775807", true
		case "Uint64", "Uintptr":
			return "0", "18446744073709551615", true
		case "Int32":
			return "-2147483648", "2147483647", true
		case "Uint32":
			return "0", "4294967295", true
		}
		return "", "", false
	}
	if isTimeTime(t) {
		return "", "", false
	}
	b, isB := t.Underlying().(*types.Basic)
	if !isB || b.Info()&types.IsInteger == 0 {
		return "", "", false
	}
	switch b.Kind() {
	case types.Int, types.Int64, types.UntypedInt:
		return "-9223372036854775808", "9223372036854775807", true
	case types.Int32, types.UntypedRune:
		return "-2147483648", "2147483647", true
	case types.Int16:
		return "-32768", "32767", true
	case types.Int8:
		return "-128", "127", true
	case types.Uint, types.Uint64, types.Uintptr:
		return "0", "18446744073709551615", true
	case types.Uint32:
		return "0", "4294967295", true
	case types.Uint16:
		return "0", "65535", true
	case types.Uint8:
		return "0", "255", true
	}
	return "", "", false
}

// rangeAssumption returns the typing constraint on a term of Go type t (integers in range,
// slice lengths non-negative, nested struct fields).
func (r *TypeReg) rangeAssumption(v Term, t types.Type, depth int) Term {
	if lo, hi, ok := intRange(t); ok && v.Sort == SInt {
		return And(App(SBool, "<=", IntLitS(lo), v), App(SBool, "<=", v, IntLitS(hi)))
	}
	switch v.Sort {
	case SSlice:
		ln := App(SInt, "slen", v)
		rf := App(SInt, "sref", v)
		return And(App(SBool, ">=", ln, IntLit(0)), App(SBool, ">=", rf, IntLit(0)),
			Implies(Eq(rf, IntLit(0)), Eq(ln, IntLit(0))))
	}
	if strings.HasPrefix(v.Sort, "St_") && depth < 4 {
		var cs []Term
		for _, f := range r.dtFields[v.Sort] {
			fv := App(f.Sort, v.Sort+"_"+f.Name, v)
			cs = append(cs, r.rangeAssumption(fv, f.Type, depth+1))
		}
		return And(cs...)
	}
	if _, isPtr := t.Underlying().(*types.Pointer); isPtr && v.Sort == SInt {
		return App(SBool, ">=", v, IntLit(0))
	}
	if it, isIface := t.Underlying().(*types.Interface); isIface && v.Sort == SIface {
		nilness := Eq(Eq(App(SInt, "ityp", v), IntLit(0)), Eq(v, T("(mkiface 0 0)", SIface)))
		if it.NumMethods() > 0 {
			// a non-nil value of a non-empty interface type holds a dynamic type implementing it
			pred := "implements_" + r.typeID(t)
			r.script.DeclareFun(pred, []string{SInt}, SBool)
			return And(nilness, Implies(Not(Eq(App(SInt, "ityp", v), IntLit(0))), App(SBool, pred, App(SInt, "ityp", v))))
		}
		return nilness
	}
	return TTrue
}

// ---------------------------------------------------------------------------
// Symbolic state: versioned heaps with lazy merging.

type State struct {
	id    int
	vals  map[string]Term
	kind  int // 0 fresh epoch, 1 merge
	preds []*State
	conds []Term
}

const (
	stFresh = 0
	stMerge = 1
)

func (e *Enc) newFreshState() *State {
	e.stateCounter++
	return &State{id: e.stateCounter, vals: map[string]Term{}, kind: stFresh}
}

func (e *Enc) mergeStates(preds []*State, conds []Term) *State {
	if len(preds) == 1 {
		return e.copyState(preds[0])
	}
	e.stateCounter++
	return &State{id: e.stateCounter, vals: map[string]Term{}, kind: stMerge, preds: preds, conds: conds}
}

func (e *Enc) copyState(s *State) *State {
	e.stateCounter++
	// a copy is a merge of one predecessor: lookups fall through lazily
	return &State{id: e.stateCounter, vals: map[string]Term{}, kind: stMerge, preds: []*State{s}, conds: []Term{TTrue}}
}

// lookup returns the current version of heap `name` (of sort `sort`).
func (e *Enc) lookup(s *State, name, sort string) Term {
	if t, ok := s.vals[name]; ok {
		return t
	}
	if old, ok := e.heapSorts[name]; ok && old != sort {
		panic(fmt.Sprintf("heap %s used at sorts %s and %s", name, old, sort))
	}
	e.heapSorts[name] = sort
	var t Term
	switch s.kind {
	case stFresh:
		t = e.sc.Declare(fmt.Sprintf("%s@%d", name, s.id), sort)
		if name == "alloc" && s.id != e.entryStateID {
			// monotone allocator across havoc
			if prev, ok := e.allocBefore[s.id]; ok {
				e.sc.Assert(App(SBool, ">=", t, prev))
			}
		}
	case stMerge:
		vals := make([]Term, len(s.preds))
		same := true
		for i, p := range s.preds {
			vals[i] = e.lookup(p, name, sort)
			if vals[i].S != vals[0].S {
				same = false
			}
		}
		if same {
			t = vals[0]
		} else {
			t = e.sc.Declare(fmt.Sprintf("%s@%d", name, s.id), sort)
			// t = ite(c0, v0, ite(c1, v1, ... v_last))
			rhs := vals[len(vals)-1]
			for i := len(vals) - 2; i >= 0; i-- {
				rhs = Ite(s.conds[i], vals[i], rhs)
			}
			e.sc.AssertDef(t.S, Eq(t, rhs))
		}
	}
	s.vals[name] = t
	return t
}

func (e *Enc) set(s *State, name string, v Term) {
	if old, ok := e.heapSorts[name]; ok && old != v.Sort {
		panic(fmt.Sprintf("heap %s set at sort %s, declared %s", name, v.Sort, old))
	}
	e.heapSorts[name] = v.Sort
	s.vals[name] = v
}

// havocAll replaces the state by a fresh epoch (allocator stays monotone; private local cells and
// names with prefix "L$" are kept because their addresses never escape).
func (e *Enc) havocAll(s *State) *State {
	alloc := e.lookup(s, "alloc", SInt)
	ns := e.newFreshState()
	e.allocBefore[ns.id] = alloc
	// keep non-escaping locals and ghost protocol variables marked private
	names := make([]string, 0)
	for name := range e.heapSorts {
		if strings.HasPrefix(name, "L$") || e.frozenHeap(name) || e.ownGhost(name) {
			names = append(names, name)
		}
	}
	sort.Strings(names)
	for _, name := range names {
		ns.vals[name] = e.lookup(s, name, e.heapSorts[name])
	}
	e.lookup(ns, "alloc", SInt)
	// private closes-only channels are closed only at their own close sites
	if len(e.privateChans) > 0 {
		oc := e.lookup(s, "G$closedchans", ArraySort(SInt, SBool))
		nc := e.lookup(ns, "G$closedchans", ArraySort(SInt, SBool))
		for _, c := range e.privateChans {
			e.sc.Assert(Eq(Select(nc, c), Select(oc, c)))
		}
	}
	e.assumeGlobalInvs(ns)
	return ns
}

// ownGhost: ghost variables are changed by ghost hooks only. A ghost variable that only the contract of the function
// under verification writes (hook assignments or its modifies clause; all variants of the function count as one
// writer) is therefore not changed by its callees, provided the function is not re-entered through them.
func (e *Enc) ownGhost(heap string) bool {
	if !strings.HasPrefix(heap, "G$") || e.fc == nil {
		return false
	}
	name := heap[2:]
	if _, ok := e.prog.cs.Ghosts[name]; !ok {
		return false
	}
	ws := e.prog.ghostWriters()[name]
	if len(ws) != 1 {
		return false
	}
	me := e.fc.PkgPath + "." + e.fc.Target
	if !ws[me] {
		return false
	}
	e.assumed["a ghost variable written only by the hooks of "+e.key+" is not changed by the functions it calls (it is not re-entered through its callees)"] = true
	return true
}

// havocNames gives fresh versions to the listed heaps.
func (e *Enc) havocNames(s *State, names []string) {
	for _, n := range names {
		srt, ok := e.heapSorts[n]
		if !ok {
			continue
		}
		e.freshCounter++
		nv := e.sc.Declare(fmt.Sprintf("%s!h%d", n, e.freshCounter), srt)
		if n == "alloc" {
			e.sc.Assert(App(SBool, ">=", nv, e.lookup(s, "alloc", SInt)))
		}
		s.vals[n] = nv
	}
}

// frozenHeap: name is the heap of a field declared `frozen` (assigned only during construction,
// checked module-wide by FRAME.frozen): no call can change it.
func (e *Enc) frozenHeap(name string) bool {
	if !strings.HasPrefix(name, "F$") || len(e.prog.cs.Frozen) == 0 {
		return false
	}
	if e.frozenNames == nil {
		e.frozenNames = map[string]bool{}
		for _, fz := range e.prog.cs.Frozen {
			t := e.prog.resolveType(fz.PkgPath, fz.Type)
			if t == nil {
				continue
			}
			e.frozenNames["F$"+e.tr.typeID(t)+"$"+fz.Field] = true
		}
	}
	if e.frozenNames[name] {
		e.assumed["fields declared frozen keep their value across calls (justified by the FRAME.frozen scan of every function in the module)"] = true
		return true
	}
	return false
}
