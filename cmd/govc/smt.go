package main

// SMT term construction and the solver portfolio (z3 4.8.12, z3-new 5.1.0, cvc5).

import (
	"bytes"
	"context"
	"fmt"
	"os"
	"os/exec"
	"path/filepath"
	"regexp"
	"sort"
	"strings"
	"sync"
	"time"
)

// Term is an SMT-LIB term with its sort.
type Term struct {
	S    string
	Sort string
}

func (t Term) String() string { return t.S }

const (
	SInt    = "Int"
	SBool   = "Bool"
	SReal   = "Real"
	SString = "String"
	SSlice  = "Slice"
	SIface  = "Iface"
)

func T(s, sort string) Term { return Term{s, sort} }

var (
	TTrue  = Term{"true", SBool}
	TFalse = Term{"false", SBool}
)

func IntLit(n int64) Term {
	if n < 0 {
		return Term{fmt.Sprintf("(- %d)", -n), SInt}
	}
	return Term{fmt.Sprintf("%d", n), SInt}
}

func IntLitS(dec string) Term {
	if strings.HasPrefix(dec, "-") {
		return Term{"(- " + dec[1:] + ")", SInt}
	}
	return Term{dec, SInt}
}

func BoolLit(b bool) Term {
	if b {
		return TTrue
	}
	return TFalse
}

func StrLit(s string) Term {
	var b strings.Builder
	b.WriteByte('"')
	for _, r := range s {
		switch {
		case r == '"':
			b.WriteString(`""`)
		case r < 32 || r > 126 || r == '\\':
			fmt.Fprintf(&b, `\u{%x}`, r)
		default:
			b.WriteRune(r)
		}
	}
	b.WriteByte('"')
	return Term{b.String(), SString}
}

func App(sort, op string, args ...Term) Term {
	var b strings.Builder
	b.WriteByte('(')
	b.WriteString(op)
	for _, a := range args {
		b.WriteByte(' ')
		b.WriteString(a.S)
	}
	b.WriteByte(')')
	return Term{b.String(), sort}
}

func And(ts ...Term) Term {
	var xs []Term
	for _, t := range ts {
		if t.S == "true" {
			continue
		}
		if t.S == "false" {
			return TFalse
		}
		xs = append(xs, t)
	}
	switch len(xs) {
	case 0:
		return TTrue
	case 1:
		return xs[0]
	}
	return App(SBool, "and", xs...)
}

func Or(ts ...Term) Term {
	var xs []Term
	for _, t := range ts {
		if t.S == "false" {
			continue
		}
		if t.S == "true" {
			return TTrue
		}
		xs = append(xs, t)
	}
	switch len(xs) {
	case 0:
		return TFalse
	case 1:
		return xs[0]
	}
	return App(SBool, "or", xs...)
}

func Not(t Term) Term {
	if t.S == "true" {
		return TFalse
	}
	if t.S == "false" {
		return TTrue
	}
	return App(SBool, "not", t)
}

func Implies(a, b Term) Term {
	if a.S == "true" {
		return b
	}
	if a.S == "false" || b.S == "true" {
		return TTrue
	}
	return App(SBool, "=>", a, b)
}

func Eq(a, b Term) Term {
	if a.S == b.S {
		return TTrue
	}
	return App(SBool, "=", a, b)
}

func Ite(c, a, b Term) Term {
	if c.S == "true" {
		return a
	}
	if c.S == "false" {
		return b
	}
	if a.S == b.S {
		return a
	}
	return App(a.Sort, "ite", c, a, b)
}

func Select(arr, idx Term) Term {
	// (Array K V) -> V
	return App(arrayValSort(arr.Sort), "select", arr, idx)
}

func Store(arr, idx, v Term) Term { return App(arr.Sort, "store", arr, idx, v) }

func ArraySort(k, v string) string { return "(Array " + k + " " + v + ")" }

// arrayValSort returns V of "(Array K V)".
func arrayValSort(s string) string {
	k, v := splitArraySort(s)
	_ = k
	return v
}

func splitArraySort(s string) (string, string) {
	if !strings.HasPrefix(s, "(Array ") {
		panic("not an array sort: " + s)
	}
	body := s[len("(Array ") : len(s)-1]
	// split the first sort from the rest
	depth := 0
	for i := 0; i < len(body); i++ {
		switch body[i] {
		case '(':
			depth++
		case ')':
			depth--
		case ' ':
			if depth == 0 {
				return body[:i], body[i+1:]
			}
		}
	}
	panic("bad array sort: " + s)
}

// ToReal coerces an Int term to Real.
func ToReal(t Term) Term {
	if t.Sort == SReal {
		return t
	}
	if t.Sort != SInt {
		panic("ToReal of " + t.Sort + ": " + t.S)
	}
	// literal fast path
	if isDigits(t.S) {
		return Term{t.S + ".0", SReal}
	}
	return App(SReal, "to_real", t)
}

func isDigits(s string) bool {
	if s == "" {
		return false
	}
	for _, c := range s {
		if c < '0' || c > '9' {
			return false
		}
	}
	return true
}

// ---------------------------------------------------------------------------
// Script: declarations + background assertions for one function.

type Script struct {
	Datatypes []string // declare-datatypes lines (global order)
	Decls     []string
	Asserts   []string
	declared  map[string]bool
}

func NewScript() *Script { return &Script{declared: map[string]bool{}} }

func (s *Script) Declare(name, sort string) Term {
	if !s.declared[name] {
		s.declared[name] = true
		s.Decls = append(s.Decls, fmt.Sprintf("(declare-const %s %s)", name, sort))
	}
	return Term{name, sort}
}

func (s *Script) DeclareFun(name string, args []string, ret string) {
	if !s.declared[name] {
		s.declared[name] = true
		s.Decls = append(s.Decls, fmt.Sprintf("(declare-fun %s (%s) %s)", name, strings.Join(args, " "), ret))
	}
}

func (s *Script) Raw(decl string) {
	if !s.declared[decl] {
		s.declared[decl] = true
		s.Decls = append(s.Decls, decl)
	}
}

func (s *Script) Assert(t Term) {
	if t.S == "true" {
		return
	}
	s.Asserts = append(s.Asserts, "(assert "+t.S+")")
}

func (s *Script) AssertNamed(t Term, comment string) {
	if t.S == "true" {
		return
	}
	s.Asserts = append(s.Asserts, "; "+comment+"\n(assert "+t.S+")")
}

var smtPrelude = `(declare-datatypes ((Slice 0)) (((mkslice (sref Int) (slen Int)))))
(declare-datatypes ((Iface 0)) (((mkiface (ityp Int) (ival Int)))))
(define-fun imin ((a Int) (b Int)) Int (ite (<= a b) a b))
(define-fun imax ((a Int) (b Int)) Int (ite (>= a b) a b))
(define-fun iabs ((a Int)) Int (ite (>= a 0) a (- a)))
(define-fun rmin ((a Real) (b Real)) Real (ite (<= a b) a b))
(define-fun rmax ((a Real) (b Real)) Real (ite (>= a b) a b))
(define-fun rabs ((a Real)) Real (ite (>= a 0.0) a (- a)))
(define-fun tdiv ((a Int) (b Int)) Int (ite (>= a 0) (ite (> b 0) (div a b) (- (div a (- b)))) (ite (> b 0) (- (div (- a) b)) (div (- a) (- b)))))
(define-fun tmod ((a Int) (b Int)) Int (- a (* b (tdiv a b))))
(define-fun rtrunc ((a Real)) Int (ite (>= a 0.0) (to_int a) (- (to_int (- a)))))
(define-fun rceil ((a Real)) Int (- (to_int (- a))))
`

// Query renders a complete SMT-LIB query whose satisfiability decides `goal`
// (goal holds under the background iff the query is unsat).
func (s *Script) Query(negGoal Term, wantModel bool, cutDecls, cutAsserts int) string {
	return s.QueryExcluding(negGoal, wantModel, cutDecls, cutAsserts, nil)
}

func (s *Script) QueryExcluding(negGoal Term, wantModel bool, cutDecls, cutAsserts int, excluded map[int]bool) string {
	decls, asserts := s.Decls, s.Asserts
	if cutDecls >= 0 && cutDecls <= len(decls) {
		decls = decls[:cutDecls]
	}
	if cutAsserts >= 0 && cutAsserts <= len(asserts) {
		asserts = asserts[:cutAsserts]
	}
	var b strings.Builder
	if wantModel {
		b.WriteString("(set-option :produce-models true)\n")
	}
	b.WriteString("(set-logic ALL)\n")
	b.WriteString(smtPrelude)
	for _, d := range s.Datatypes {
		b.WriteString(d)
		b.WriteByte('\n')
	}
	for _, d := range decls {
		b.WriteString(d)
		b.WriteByte('\n')
	}
	for i, a := range asserts {
		if excluded[i] {
			continue
		}
		b.WriteString(a)
		b.WriteByte('\n')
	}
	b.WriteString("(assert " + negGoal.S + ")\n")
	b.WriteString("(check-sat)\n")
	if wantModel {
		b.WriteString("(get-model)\n")
	}
	return b.String()
}

// ---------------------------------------------------------------------------
// Solver portfolio

type SolverResult struct {
	Solver  string
	Answer  string // unsat | sat | unknown | timeout | error
	Seconds float64
	Model   string
	Raw     string
}

type solverSpec struct {
	name string
	argv func(file string, timeoutS int) []string
}

var solvers = []solverSpec{
	{"z3-new-5.1.0", func(f string, t int) []string {
		return []string{"z3-new", fmt.Sprintf("-T:%d", t), f}
	}},
	{"z3-4.8.12", func(f string, t int) []string {
		return []string{"/usr/bin/z3", fmt.Sprintf("-T:%d", t), f}
	}},
	{"cvc5-1.0", func(f string, t int) []string {
		return []string{"cvc5", "--produce-models", fmt.Sprintf("--tlimit=%d", t*1000), "--lang=smt2", f}
	}},
}

var (
	queryDir     string
	queryDirOnce sync.Once
	queryCounter int
	queryMu      sync.Mutex
)

func scratchDir() string {
	queryDirOnce.Do(func() {
		base := os.Getenv("TMPDIR")
		if base == "" {
			base = os.TempDir()
		}
		d, err := os.MkdirTemp(base, "govc-q-")
		if err != nil {
			panic(err)
		}
		queryDir = d
	})
	return queryDir
}

func cleanupScratch() {
	if queryDir != "" {
		os.RemoveAll(queryDir)
	}
}

func runOne(ctx context.Context, sp solverSpec, file string, timeoutS int) SolverResult {
	argv := sp.argv(file, timeoutS)
	cctx, cancel := context.WithTimeout(ctx, time.Duration(timeoutS+2)*time.Second)
	defer cancel()
	cmd := exec.CommandContext(cctx, argv[0], argv[1:]...)
	var out bytes.Buffer
	cmd.Stdout = &out
	cmd.Stderr = &out
	start := time.Now()
	err := cmd.Run()
	el := time.Since(start).Seconds()
	txt := out.String()
	first := strings.TrimSpace(txt)
	if i := strings.IndexByte(first, '\n'); i >= 0 {
		first = strings.TrimSpace(first[:i])
	}
	res := SolverResult{Solver: sp.name, Seconds: el, Raw: txt}
	switch first {
	case "unsat":
		res.Answer = "unsat"
	case "sat":
		res.Answer = "sat"
		if i := strings.IndexByte(txt, '\n'); i >= 0 {
			res.Model = txt[i+1:]
		}
	case "unknown", "timeout":
		res.Answer = first
	default:
		if cctx.Err() != nil {
			res.Answer = "timeout"
		} else if err != nil || strings.Contains(first, "error") {
			res.Answer = "error"
		} else {
			res.Answer = "unknown"
		}
	}
	return res
}

// Solve decides one query. mode "quick": z3-new first with a short budget, then
// race all three. mode "thorough": ask every solver; discharged only if at least one
// says unsat and none says sat.
func Solve(query string, tier string, timeoutS int, tag string) (SolverResult, []SolverResult) {
	queryMu.Lock()
	queryCounter++
	n := queryCounter
	queryMu.Unlock()
	file := filepath.Join(scratchDir(), fmt.Sprintf("q%05d.smt2", n))
	if err := os.WriteFile(file, []byte(query), 0o644); err != nil {
		panic(err)
	}
	defer os.Remove(file)
	ctx := context.Background()
	var all []SolverResult
	if tier != "thorough" {
		short := 3
		if short > timeoutS {
			short = timeoutS
		}
		r := runOne(ctx, solvers[0], file, short)
		all = append(all, r)
		if r.Answer == "unsat" || r.Answer == "sat" {
			return r, all
		}
		// race all three
		rctx, cancel := context.WithCancel(ctx)
		ch := make(chan SolverResult, len(solvers))
		for _, sp := range solvers {
			sp := sp
			go func() { ch <- runOne(rctx, sp, file, timeoutS) }()
		}
		var best SolverResult
		got := false
		for range solvers {
			r := <-ch
			all = append(all, r)
			if !got && (r.Answer == "unsat" || r.Answer == "sat") {
				best, got = r, true
				cancel()
			}
		}
		cancel()
		if got {
			return best, all
		}
		return SolverResult{Solver: "portfolio", Answer: summarizeAnswers(all)}, all
	}
	// thorough: everyone answers
	ch := make(chan SolverResult, len(solvers))
	for _, sp := range solvers {
		sp := sp
		go func() { ch <- runOne(ctx, sp, file, timeoutS) }()
	}
	for range solvers {
		all = append(all, <-ch)
	}
	sort.Slice(all, func(i, j int) bool { return all[i].Solver < all[j].Solver })
	var unsat, sat *SolverResult
	for i := range all {
		switch all[i].Answer {
		case "unsat":
			if unsat == nil {
				unsat = &all[i]
			}
		case "sat":
			if sat == nil {
				sat = &all[i]
			}
		}
	}
	if sat != nil {
		return *sat, all
	}
	if unsat != nil {
		return *unsat, all
	}
	return SolverResult{Solver: "portfolio", Answer: summarizeAnswers(all)}, all
}

func summarizeAnswers(all []SolverResult) string {
	var xs []string
	for _, r := range all {
		xs = append(xs, r.Solver+"="+r.Answer)
	}
	sort.Strings(xs)
	if len(xs) == 0 {
		return "unknown"
	}
	return "unknown(" + strings.Join(xs, ",") + ")"
}

// ---------------------------------------------------------------------------
// Model parsing: (define-fun name () Sort value)

var defineFunRe = regexp.MustCompile(`\(define-fun\s+(\S+)\s+\(\)\s+(\S+)\s+`)

// ParseModel extracts scalar constants from a z3/cvc5 model.
func ParseModel(model string) map[string]string {
	res := map[string]string{}
	idx := defineFunRe.FindAllStringSubmatchIndex(model, -1)
	for _, m := range idx {
		name := model[m[2]:m[3]]
		// value: balanced s-expr starting at m[1]
		v := readSexp(model[m[1]:])
		res[strings.Trim(name, "|")] = v
	}
	return res
}

func readSexp(s string) string {
	s = strings.TrimLeft(s, " \n\t")
	if s == "" {
		return ""
	}
	if s[0] != '(' {
		if s[0] == '"' {
			// string literal
			for i := 1; i < len(s); i++ {
				if s[i] == '"' {
					if i+1 < len(s) && s[i+1] == '"' {
						i++
						continue
					}
					return s[:i+1]
				}
			}
			return s
		}
		i := strings.IndexAny(s, " \n\t)")
		if i < 0 {
			return s
		}
		return s[:i]
	}
	depth := 0
	inStr := false
	for i := 0; i < len(s); i++ {
		c := s[i]
		if inStr {
			if c == '"' {
				inStr = false
			}
			continue
		}
		switch c {
		case '"':
			inStr = true
		case '(':
			depth++
		case ')':
			depth--
			if depth == 0 {
				return s[:i+1]
			}
		}
	}
	return s
}

// modelInt parses an SMT integer value such as "5" or "(- 5)".
func modelInt(v string) (string, bool) {
	v = strings.TrimSpace(v)
	if isDigits(v) {
		return v, true
	}
	if strings.HasPrefix(v, "(-") && strings.HasSuffix(v, ")") {
		inner := strings.TrimSpace(v[2 : len(v)-1])
		if isDigits(inner) {
			return "-" + inner, true
		}
	}
	return "", false
}
