package main

// SMT term construction and the solver portfolio (z3 4.8.12, z3-new 5.1.0, cvc5).

import (
	"bytes"
	"context"
	"fmt"
	"os"
	"os/exec"
	"path/filepath"
	"regexp"
	"sort"
	"strings"
	"sync"
	"time"
)

// Term is an SMT-LIB term with its sort.
type Term struct {
	S    string
	Sort string
}

func (t Term) String() string { return t.S }

const (
	SInt    = "Int"
	SBool   = "Bool"
	SReal   = "Real"
	SString = "String"
	SSlice  = "Slice"
	SIface  = "Iface"
)

func T(s, sort string) Term { return Term{s, sort} }

var (
	TTrue  = Term{"true", SBool}
	TFalse = Term{"false", SBool}
)

func IntLit(n int64) Term {
	if n < 0 {
		return Term{fmt.Sprintf("(- %d)", -n), SInt}
	}
	return Term{fmt.Sprintf("%d", n), SInt}
}

func IntLitS(dec string) Term {
	if strings.HasPrefix(dec, "-") {
		return Term{"(- " + dec[1:] + ")", SInt}
	}
	return Term{dec, SInt}
}

func BoolLit(b bool) Term {
	if b {
		return TTrue
	}
	return TFalse
}

func StrLit(s string) Term {
	var b strings.Builder
	b.WriteByte('"')
	for _, r := range s {
		switch {
		case r == '"':
			b.WriteString(`""`)
		case r < 32 || r > 126 || r == '\\':
			fmt.Fprintf(&b, `\u{%x}`, r)
		default:
			b.WriteRune(r)
		}
	}
	b.WriteByte('"')
	return Term{b.String(), SString}
}

func App(sort, op string, args ...Term) Term {
	var b strings.Builder
	b.WriteByte('(')
	b.WriteString(op)
	for _, a := range args {
		b.WriteByte(' ')
		b.WriteString(a.S)
	}
	b.WriteByte(')')
	return Term{b.String(), sort}
}

func And(ts ...Term) Term {
	var xs []Term
	for _, t := range ts {
		if t.S == "true" {
			continue
		}
		if t.S == "false" {
			return TFalse
		}
		xs = append(xs, t)
	}
	switch len(xs) {
	case 0:
		return TTrue
	case 1:
		return xs[0]
	}
	return App(SBool, "and", xs...)
}

func Or(ts ...Term) Term {
	var xs []Term
	for _, t := range ts {
		if t.S == "false" {
			continue
		}
		if t.S == "true" {
			return TTrue
		}
		xs = append(xs, t)
	}
	switch len(xs) {
	case 0:
		return TFalse
	case 1:
		return xs[0]
	}
	return App(SBool, "or", xs...)
}

func Not(t Term) Term {
	if t.S == "true" {
		return TFalse
	}
	if t.S == "false" {
		return TTrue
	}
	return App(SBool, "not", t)
}

func Implies(a, b Term) Term {
	if a.S == "true" {
		return b
	}
	if a.S == "false" || b.S == "true" {
		return TTrue
	}
	return App(SBool, "=>", a, b)
}

func Eq(a, b Term) Term {
	if a.S == b.S {
		return TTrue
	}
	return App(SBool, "=", a, b)
}

func Ite(c, a, b Term) Term {
	if c.S == "true" {
		return a
	}
	if c.S == "false" {
		return b
	}
	if a.S == b.S {
		return a
	}
	return App(a.Sort, "ite", c, a, b)
}

func Select(arr, idx Term) Term {
	// (Array K V) -> V
	return App(arrayValSort(arr.Sort), "select", arr, idx)
}

func Store(arr, idx, v Term) Term { return App(arr.Sort, "store", arr, idx, v) }

func ArraySort(k, v string) string { return "(Array " + k + " " + v + ")" }

// arrayValSort returns V of "(Array K V)".
func arrayValSort(s string) string {
	k, v := splitArraySort(s)
	_ = k
	return v
}

func splitArraySort(s string) (string, string) {
	if !strings.HasPrefix(s, "(Array ") {
		panic("not an array sort: " + s)
	}
	body := s[len("(Array ") : len(s)-1]
	// split the first sort from the rest
	depth := 0
	for i := 0; i < len(body); i++ {
		switch body[i] {
		case '(':
			depth++
		case ')':
			depth--
		case ' ':
			if depth == 0 {
				return body[:i], body[i+1:]
			}
		}
	}
	panic("bad array sort: " + s)
}

// ToReal coerces an Int term to Real.
func ToReal(t Term) Term {
	if t.Sort == SReal {
		return t
	}
	if t.Sort != SInt {
		panic("ToReal of " + t.Sort + ": " + t.S)
	}
	// literal fast path
	if isDigits(t.S) {
		return Term{t.S + ".0", SReal}
	}
	return App(SReal, "to_real", t)
}

func isDigits(s string) bool {
	if s == "" {
		return false
	}
	for _, c := range s {
		if c < '0' || c > '9' {
			return false
		}
	}
	return true
}

// ---------------------------------------------------------------------------
// Script: declarations + background assertions for one function.

type Script struct {
	Datatypes []string // declare-datatypes lines (global order)
	Decls     []string
	Asserts   []string
	declared  map[string]bool
	// relevance tags, parallel to Asserts: Defs[i] != "" marks the defining equation of that constant,
	// Keys[i] != "" marks an axiom instance that matters only where the key term occurs
	Defs  []string
	Keys  []string
	facts map[string]bool
}

func NewScript() *Script { return &Script{declared: map[string]bool{}} }

func (s *Script) Declare(name, sort string) Term {
	if !s.declared[name] {
		s.declared[name] = true
		s.Decls = append(s.Decls, fmt.Sprintf("(declare-const %s %s)", name, sort))
	}
	return Term{name, sort}
}

func (s *Script) DeclareFun(name string, args []string, ret string) {
	if !s.declared[name] {
		s.declared[name] = true
		s.Decls = append(s.Decls, fmt.Sprintf("(declare-fun %s (%s) %s)", name, strings.Join(args, " "), ret))
	}
}

func (s *Script) Raw(decl string) {
	if !s.declared[decl] {
		s.declared[decl] = true
		s.Decls = append(s.Decls, decl)
	}
}

func (s *Script) add(text, def, key string) {
	s.Asserts = append(s.Asserts, text)
	s.Defs = append(s.Defs, def)
	s.Keys = append(s.Keys, key)
}

func (s *Script) Assert(t Term) {
	if t.S == "true" {
		return
	}
	for _, c := range s.resolveUnits(splitConj(t.S)) {
		s.add("(assert "+c+")", "", "")
	}
}

// resolveUnits: an implication whose antecedent has already been asserted verbatim as a fact is
// replaced by its consequent (and split further); every part is remembered as a fact. Keeps facts
// that are conditional on a proof-mode flag visible to the relevance slicer and the keyed axioms.
func (s *Script) resolveUnits(parts []string) []string {
	if s.facts == nil {
		s.facts = map[string]bool{}
	}
	var out []string
	for _, c := range parts {
		for strings.HasPrefix(c, "(=> ") {
			ante := readSexp(c[4:])
			if ante == "" || !s.facts[ante] {
				break
			}
			rest := strings.TrimSpace(c[4+len(ante) : len(c)-1])
			if readSexp(rest) != rest {
				break
			}
			c = rest
		}
		if strings.HasPrefix(c, "(and ") {
			out = append(out, s.resolveUnits(splitConj(c))...)
			continue
		}
		s.facts[c] = true
		out = append(out, c)
	}
	return out
}

// splitConj splits nested top-level conjunctions "(and a (and b c))" into [a b c].
func splitConj(t string) []string {
	if !strings.HasPrefix(t, "(and ") {
		return []string{t}
	}
	body := t[len("(and ") : len(t)-1]
	var parts []string
	for len(body) > 0 {
		body = strings.TrimLeft(body, " ")
		if body == "" {
			break
		}
		p := readSexp(body)
		if p == "" {
			return []string{t}
		}
		parts = append(parts, splitConj(p)...)
		body = body[len(p):]
	}
	return parts
}

// AssertDef records the defining equation of constant sym.
func (s *Script) AssertDef(sym string, t Term) {
	if t.S == "true" {
		return
	}
	s.add("(assert "+t.S+")", sym, "")
}

// AssertKeyed records an axiom instance that is only relevant where the term `key` occurs.
func (s *Script) AssertKeyed(key string, t Term) {
	if t.S == "true" {
		return
	}
	s.add("(assert "+t.S+")", "", key)
}

func (s *Script) AssertNamed(t Term, comment string) {
	if t.S == "true" {
		return
	}
	for _, c := range s.resolveUnits(splitConj(t.S)) {
		s.add("; "+comment+"\n(assert "+c+")", "", "")
	}
}

var symRe = regexp.MustCompile(`[A-Za-z_$][A-Za-z0-9_$@!.]*`)

var smtWords = map[string]bool{"assert": true, "and": true, "or": true, "not": true, "ite": true, "select": true, "store": true, "forall": true, "exists": true,
	"Int": true, "Real": true, "Bool": true, "String": true, "Array": true, "true": true, "false": true, "to_real": true, "to_int": true, "is_int": true,
	"div": true, "mod": true, "as": true, "const": true, "let": true, "pattern": true, "rabs": true, "iabs": true, "imin": true, "imax": true, "rmin": true, "rmax": true,
	"tdiv": true, "tmod": true, "rtrunc": true, "rceil": true, "mkslice": true, "sref": true, "slen": true, "mkiface": true, "ityp": true, "ival": true,
	"Slice": true, "Iface": true, "rnd": true, "fp_tiny": true, "TIME_ZERO": true, "str.len": true}

func symbolsOf(text string, into map[string]bool) {
	// skip leading comment lines
	for strings.HasPrefix(text, ";") {
		k := strings.IndexByte(text, '\n')
		if k < 0 {
			return
		}
		text = text[k+1:]
	}
	for _, m := range symRe.FindAllString(text, -1) {
		if !smtWords[m] && !strings.HasPrefix(m, "q_") {
			into[m] = true
		}
	}
}

// relevant computes the assertion indexes (below cut, not excluded) relevant to the goal text:
// defining equations only of needed constants, keyed axiom instances only where their key term
// occurs, other facts when they share a symbol with what is already included. Dropping assertions
// only weakens the background, so an unsat answer on the slice is an unsat answer on the whole.
func (s *Script) relevant(goal string, cut int, excluded map[int]bool) map[int]bool {
	return s.relevantDepth(goal, cut, excluded, -1)
}

// relevantDepth limits the number of definition-expansion rounds (depth < 0: unlimited): constants
// whose definitions are left out are simply unconstrained, which is sound for unsat answers.
func (s *Script) relevantDepth(goal string, cut int, excluded map[int]bool, depth int) map[int]bool {
	n := len(s.Asserts)
	if cut >= 0 && cut < n {
		n = cut
	}
	// core symbols (goal + right-hand sides of the definitions they need) select facts; symbols that
	// only occur in selected facts pull in their definitions but no further facts
	core := map[string]bool{}
	second := map[string]bool{}
	symbolsOf(goal, core)
	included := map[int]bool{}
	var texts []string
	texts = append(texts, goal)
	syms := make([]map[string]bool, n)
	for i := 0; i < n; i++ {
		syms[i] = map[string]bool{}
		symbolsOf(s.Asserts[i], syms[i])
	}
	round := 0
	for changed := true; changed; {
		changed = false
		round++
		allowDefs := depth < 0 || round <= depth
		// symbols become visible to definitions only at the start of a round
		coreSnap := map[string]bool{}
		for k := range core {
			coreSnap[k] = true
		}
		secondSnap := map[string]bool{}
		for k := range second {
			secondSnap[k] = true
		}
		for i := 0; i < n; i++ {
			if included[i] || excluded[i] {
				continue
			}
			switch {
			case s.Defs[i] != "":
				if !allowDefs {
					continue
				}
				if !coreSnap[s.Defs[i]] && !secondSnap[s.Defs[i]] {
					continue
				}
				if core[s.Defs[i]] {
					included[i] = true
					for sym := range syms[i] {
						core[sym] = true
					}
				} else if second[s.Defs[i]] {
					included[i] = true
					for sym := range syms[i] {
						if !core[sym] {
							second[sym] = true
						}
					}
				}
			case s.Keys[i] != "":
				for _, t := range texts {
					if containsWord(t, s.Keys[i]) {
						included[i] = true
						break
					}
				}
				if included[i] {
					for sym := range syms[i] {
						core[sym] = true
					}
				}
			default:
				take := len(syms[i]) == 0
				for sym := range syms[i] {
					if core[sym] {
						take = true
						break
					}
				}
				if !take {
					// a fact over symbols that are all present already cannot widen the slice
					all := true
					for sym := range syms[i] {
						if !core[sym] && !second[sym] {
							all = false
							break
						}
					}
					take = all
				}
				if take {
					included[i] = true
					for sym := range syms[i] {
						if !core[sym] {
							second[sym] = true
						}
					}
				}
			}
			if included[i] {
				changed = true
				texts = append(texts, s.Asserts[i])
			}
		}
	}
	return included
}

var smtPrelude = `(declare-datatypes ((Slice 0)) (((mkslice (sref Int) (slen Int)))))
(declare-datatypes ((Iface 0)) (((mkiface (ityp Int) (ival Int)))))
(define-fun imin ((a Int) (b Int)) Int (ite (<= a b) a b))
(define-fun imax ((a Int) (b Int)) Int (ite (>= a b) a b))
(define-fun iabs ((a Int)) Int (ite (>= a 0) a (- a)))
(define-fun rmin ((a Real) (b Real)) Real (ite (<= a b) a b))
(define-fun rmax ((a Real) (b Real)) Real (ite (>= a b) a b))
(define-fun rabs ((a Real)) Real (ite (>= a 0.0) a (- a)))
(define-fun tdiv ((a Int) (b Int)) Int (ite (>= a 0) (ite (> b 0) (div a b) (- (div a (- b)))) (ite (> b 0) (- (div (- a) b)) (div (- a) (- b)))))
(define-fun tmod ((a Int) (b Int)) Int (- a (* b (tdiv a b))))
(define-fun rtrunc ((a Real)) Int (ite (>= a 0.0) (to_int a) (- (to_int (- a)))))
(define-fun rceil ((a Real)) Int (- (to_int (- a))))
`

// Query renders a complete SMT-LIB query whose satisfiability decides `goal`
// (goal holds under the background iff the query is unsat).
func (s *Script) Query(negGoal Term, wantModel bool, cutDecls, cutAsserts int) string {
	return s.QueryExcluding(negGoal, wantModel, cutDecls, cutAsserts, nil)
}

// QuerySliced is QueryExcluding restricted to the assertions relevant to the goal.
func (s *Script) QuerySliced(negGoal Term, wantModel bool, cutDecls, cutAsserts int, excluded map[int]bool) string {
	return s.QuerySlicedDepth(negGoal, wantModel, cutDecls, cutAsserts, excluded, -1)
}

func (s *Script) QuerySlicedDepth(negGoal Term, wantModel bool, cutDecls, cutAsserts int, excluded map[int]bool, depth int) string {
	rel := s.relevantDepth(negGoal.S, cutAsserts, excluded, depth)
	ex := map[int]bool{}
	n := len(s.Asserts)
	if cutAsserts >= 0 && cutAsserts < n {
		n = cutAsserts
	}
	for i := 0; i < n; i++ {
		if !rel[i] {
			ex[i] = true
		}
	}
	return s.QueryExcluding(negGoal, wantModel, cutDecls, cutAsserts, ex)
}

func (s *Script) QueryExcluding(negGoal Term, wantModel bool, cutDecls, cutAsserts int, excluded map[int]bool) string {
	decls, asserts := s.Decls, s.Asserts
	if cutDecls >= 0 && cutDecls <= len(decls) {
		decls = decls[:cutDecls]
	}
	if cutAsserts >= 0 && cutAsserts <= len(asserts) {
		asserts = asserts[:cutAsserts]
	}
	var b strings.Builder
	if wantModel {
		b.WriteString("(set-option :produce-models true)\n")
	}
	b.WriteString("(set-logic ALL)\n")
	b.WriteString(smtPrelude)
	for _, d := range s.Datatypes {
		b.WriteString(d)
		b.WriteByte('\n')
	}
	for _, d := range decls {
		b.WriteString(d)
		b.WriteByte('\n')
	}
	for i, a := range asserts {
		if excluded[i] {
			continue
		}
		b.WriteString(a)
		b.WriteByte('\n')
	}
	b.WriteString("(assert " + negGoal.S + ")\n")
	b.WriteString("(check-sat)\n")
	if wantModel {
		b.WriteString("(get-model)\n")
	}
	return b.String()
}

// ---------------------------------------------------------------------------
// Solver portfolio

type SolverResult struct {
	Solver  string
	Answer  string // unsat | sat | unknown | timeout | error
	Seconds float64
	Model   string
	Raw     string
}

type solverSpec struct {
	name string
	argv func(file string, timeoutS int) []string
}

var solvers = []solverSpec{
	{"z3-new-5.1.0", func(f string, t int) []string {
		return []string{"z3-new", fmt.Sprintf("-T:%d", t), f}
	}},
	{"z3-4.8.12", func(f string, t int) []string {
		return []string{"/usr/bin/z3", fmt.Sprintf("-T:%d", t), f}
	}},
	{"cvc5-1.0", func(f string, t int) []string {
		return []string{"cvc5", "--produce-models", fmt.Sprintf("--tlimit=%d", t*1000), "--lang=smt2", f}
	}},
}

var (
	queryDir     string
	queryDirOnce sync.Once
	queryCounter int
	queryMu      sync.Mutex
)

func scratchDir() string {
	queryDirOnce.Do(func() {
		base := os.Getenv("TMPDIR")
		if base == "" {
			base = os.TempDir()
		}
		d, err := os.MkdirTemp(base, "govc-q-")
		if err != nil {
			panic(err)
		}
		queryDir = d
	})
	return queryDir
}

func cleanupScratch() {
	if queryDir != "" {
		os.RemoveAll(queryDir)
	}
}

func runOne(ctx context.Context, sp solverSpec, file string, timeoutS int) SolverResult {
	argv := sp.argv(file, timeoutS)
	cctx, cancel := context.WithTimeout(ctx, time.Duration(timeoutS+2)*time.Second)
	defer cancel()
	cmd := exec.CommandContext(cctx, argv[0], argv[1:]...)
	var out bytes.Buffer
	cmd.Stdout = &out
	cmd.Stderr = &out
	start := time.Now()
	err := cmd.Run()
	el := time.Since(start).Seconds()
	txt := out.String()
	first := strings.TrimSpace(txt)
	if i := strings.IndexByte(first, '\n'); i >= 0 {
		first = strings.TrimSpace(first[:i])
	}
	res := SolverResult{Solver: sp.name, Seconds: el, Raw: txt}
	switch first {
	case "unsat":
		res.Answer = "unsat"
	case "sat":
		res.Answer = "sat"
		if i := strings.IndexByte(txt, '\n'); i >= 0 {
			res.Model = txt[i+1:]
		}
	case "unknown", "timeout":
		res.Answer = first
	default:
		if cctx.Err() != nil {
			res.Answer = "timeout"
		} else if err != nil || strings.Contains(first, "error") {
			res.Answer = "error"
		} else {
			res.Answer = "unknown"
		}
	}
	return res
}

// Solve decides one query. mode "quick": z3-new first with a short budget, then
// race all three. mode "thorough": ask every solver; discharged only if at least one
// says unsat and none says sat.
func Solve(query string, tier string, timeoutS int, tag string) (SolverResult, []SolverResult) {
	queryMu.Lock()
	queryCounter++
	n := queryCounter
	queryMu.Unlock()
	file := filepath.Join(scratchDir(), fmt.Sprintf("q%05d.smt2", n))
	if err := os.WriteFile(file, []byte(query), 0o644); err != nil {
		panic(err)
	}
	defer os.Remove(file)
	ctx := context.Background()
	var all []SolverResult
	if tier != "thorough" {
		short := 3
		if short > timeoutS {
			short = timeoutS
		}
		r := runOne(ctx, solvers[0], file, short)
		all = append(all, r)
		if r.Answer == "unsat" || r.Answer == "sat" {
			return r, all
		}
		// race all three
		rctx, cancel := context.WithCancel(ctx)
		ch := make(chan SolverResult, len(solvers))
		for _, sp := range solvers {
			sp := sp
			go func() { ch <- runOne(rctx, sp, file, timeoutS) }()
		}
		var best SolverResult
		got := false
		for range solvers {
			r := <-ch
			all = append(all, r)
			if !got && (r.Answer == "unsat" || r.Answer == "sat") {
				best, got = r, true
				cancel()
			}
		}
		cancel()
		if got {
			return best, all
		}
		return SolverResult{Solver: "portfolio", Answer: summarizeAnswers(all)}, all
	}
	// thorough: everyone answers
	ch := make(chan SolverResult, len(solvers))
	for _, sp := range solvers {
		sp := sp
		go func() { ch <- runOne(ctx, sp, file, timeoutS) }()
	}
	for range solvers {
		all = append(all, <-ch)
	}
	sort.Slice(all, func(i, j int) bool { return all[i].Solver < all[j].Solver })
	var unsat, sat *SolverResult
	for i := range all {
		switch all[i].Answer {
		case "unsat":
			if unsat == nil {
				unsat = &all[i]
			}
		case "sat":
			if sat == nil {
				sat = &all[i]
			}
		}
	}
	if sat != nil {
		return *sat, all
	}
	if unsat != nil {
		return *unsat, all
	}
	return SolverResult{Solver: "portfolio", Answer: summarizeAnswers(all)}, all
}

func summarizeAnswers(all []SolverResult) string {
	var xs []string
	for _, r := range all {
		xs = append(xs, r.Solver+"="+r.Answer)
	}
	sort.Strings(xs)
	if len(xs) == 0 {
		return "unknown"
	}
	return "unknown(" + strings.Join(xs, ",") + ")"
}

// ---------------------------------------------------------------------------
// Model parsing: (define-fun name () Sort value)

var defineFunRe = regexp.MustCompile(`\(define-fun\s+(\S+)\s+\(\)\s+(\S+)\s+`)

// ParseModel extracts scalar constants from a z3/cvc5 model.
func ParseModel(model string) map[string]string {
	res := map[string]string{}
	idx := defineFunRe.FindAllStringSubmatchIndex(model, -1)
	for _, m := range idx {
		name := model[m[2]:m[3]]
		// value: balanced s-expr starting at m[1]
		v := readSexp(model[m[1]:])
		res[strings.Trim(name, "|")] = v
	}
	return res
}

func readSexp(s string) string {
	s = strings.TrimLeft(s, " \n\t")
	if s == "" {
		return ""
	}
	if s[0] != '(' {
		if s[0] == '"' {
			// string literal
			for i := 1; i < len(s); i++ {
				if s[i] == '"' {
					if i+1 < len(s) && s[i+1] == '"' {
						i++
						continue
					}
					return s[:i+1]
				}
			}
			return s
		}
		i := strings.IndexAny(s, " \n\t)")
		if i < 0 {
			return s
		}
		return s[:i]
	}
	depth := 0
	inStr := false
	for i := 0; i < len(s); i++ {
		c := s[i]
		if inStr {
			if c == '"' {
				inStr = false
			}
			continue
		}
		switch c {
		case '"':
			inStr = true
		case '(':
			depth++
		case ')':
			depth--
			if depth == 0 {
				return s[:i+1]
			}
		}
	}
	return s
}

// modelInt parses an SMT integer value such as "5" or "(- 5)".
func modelInt(v string) (string, bool) {
	v = strings.TrimSpace(v)
	if isDigits(v) {
		return v, true
	}
	if strings.HasPrefix(v, "(-") && strings.HasSuffix(v, ")") {
		inner := strings.TrimSpace(v[2 : len(v)-1])
		if isDigits(inner) {
			return "-" + inner, true
		}
	}
	return "", false
}

// containsWord reports whether key occurs in text delimited by non-identifier characters.
func containsWord(text, key string) bool {
	key = strings.TrimSpace(key)
	if key == "" {
		return false
	}
	isId := func(c byte) bool {
		return c == '_' || c == '$' || c == '@' || c == '!' || c == '.' || c >= '0' && c <= '9' || c >= 'a' && c <= 'z' || c >= 'A' && c <= 'Z'
	}
	for i := 0; ; {
		k := strings.Index(text[i:], key)
		if k < 0 {
			return false
		}
		st := i + k
		en := st + len(key)
		okL := st == 0 || !isId(text[st-1]) || !isId(key[0])
		okR := en >= len(text) || !isId(text[en]) || !isId(key[len(key)-1])
		if okL && okR {
			return true
		}
		i = st + 1
	}
}

// writeQuery stores a query in the scratch directory and returns its path (removed at exit).
func writeQuery(q string) string {
	queryMu.Lock()
	queryCounter++
	n := queryCounter
	queryMu.Unlock()
	file := filepath.Join(scratchDir(), fmt.Sprintf("s%05d.smt2", n))
	os.WriteFile(file, []byte(q), 0o644)
	return file
}
