package main

// Symbolic execution of the loop-cut CFG: blocks, phis, instructions.

import (
	"fmt"
	"go/token"
	"go/types"
	"sort"
	"strings"

	"golang.org/x/tools/go/ssa"
)

// Run generates all obligations for the function.
func (e *Enc) Run() (err error) {
	defer func() {
		if r := recover(); r != nil {
			if ue, ok := r.(unsupportedErr); ok {
				err = fmt.Errorf("%s: unsupported: %s", e.key, string(ue))
				return
			}
			panic(r)
		}
	}()
	fn := e.fn
	if len(fn.Blocks) == 0 {
		return fmt.Errorf("%s: no body", e.key)
	}
	e.topFn = fn
	e.entryGuard = TTrue
	e.findLoops()
	e.classifyLocals()

	// entry state
	e.entry = e.newFreshState()
	e.entryStateID = e.entry.id
	alloc0 := e.lookup(e.entry, "alloc", SInt)
	e.sc.Assert(App(SBool, ">", alloc0, IntLit(0)))
	e.curGuard = TTrue
	e.blockGuard = TTrue
	// parameters and free variables
	for pi, p := range fn.Params {
		pname := "p_" + sanitize(p.Name())
		if p.Name() == "_" {
			pname = fmt.Sprintf("p_blank%d", pi)
		}
		c := e.sc.Declare(pname, e.tr.sortOf(p.Type()))
		e.vals[p] = c
		e.sc.Assert(e.tr.rangeAssumption(c, p.Type(), 0))
		e.assumeAllocated(c, p.Type(), alloc0)
	}
	if fn.Signature.Recv() != nil && len(fn.Params) > 0 {
		if _, isPtr := fn.Params[0].Type().Underlying().(*types.Pointer); isPtr {
			e.sc.AssertNamed(App(SBool, ">", e.vals[fn.Params[0]], IntLit(0)), "method receiver is non-nil (checked at contracted call sites)")
			e.assumed["pointer receivers of methods under contract are non-nil (proved at every call site that is itself under contract)"] = true
		}
	}
	for _, fv := range fn.FreeVars {
		c := e.sc.Declare("fv_"+sanitize(fv.Name()), e.tr.sortOf(fv.Type()))
		e.vals[fv] = c
		e.sc.Assert(e.tr.rangeAssumption(c, fv.Type(), 0))
		e.assumeAllocated(c, fv.Type(), alloc0)
	}
	// write-once captured variables: one constant stands for every load
	for _, fv := range fn.FreeVars {
		if freeVarIsConst(fv, 0) {
			t := derefType(fv.Type())
			c := e.sc.Declare("fvconst_"+sanitize(fv.Name()), e.tr.sortOf(t))
			e.sc.Assert(e.tr.rangeAssumption(c, t, 0))
			e.assumeAllocated(c, t, alloc0)
			e.sc.Assert(Eq(e.loadPtr(e.entry, e.vals[fv], t), c))
			if e.fvConst == nil {
				e.fvConst = map[string]Term{}
			}
			e.fvConst[e.vals[fv].S] = c
			if _, isChan := t.Underlying().(*types.Chan); isChan && capturedPrivateChan(fv) {
				e.privateChans = append(e.privateChans, c)
			}
			e.assumed["captured variables that are written once before the closure is created and only read afterwards have a fixed value (site scan of every function capturing them)"] = true
		}
	}
	// channel parameters that every caller supplies with a private closes-only channel
	if e.inl == "" && fn == e.topFn {
		for i, prm := range fn.Params {
			if _, isChan := prm.Type().Underlying().(*types.Chan); isChan && fn.Pkg != nil && e.prog.paramPrivateChan(fn, i) {
				if t, ok := e.vals[prm]; ok {
					e.privateChans = append(e.privateChans, t)
					e.assumed["channel parameters that every call site in the module supplies with a locally made channel nothing is sent on are closed only at their own close sites (site scan)"] = true
				}
			}
		}
	}
	// captured variables are distinct, allocated cells
	for i, a := range fn.FreeVars {
		e.sc.Assert(App(SBool, ">", e.vals[a], IntLit(0)))
		for _, b := range fn.FreeVars[i+1:] {
			e.sc.Assert(Not(Eq(e.vals[a], e.vals[b])))
		}
	}
	if e.fc != nil && e.fc.Recovers {
		e.panicking = e.sc.Declare("caller_panicking", SBool)
		e.panicVal = e.sc.Declare("caller_panicval", SIface)
		e.sc.Assert(Implies(Not(e.panicking), Eq(e.panicVal, T("(mkiface 0 0)", SIface))))
		e.sc.Assert(Implies(e.panicking, Not(Eq(App(SInt, "ityp", e.panicVal), IntLit(0)))))
		e.set(e.entry, "G$recovered", TFalse)
	}
	// ghost variables start with their entry values
	// preconditions
	se := e.specEnv(e.entry, e.entry, nil)
	if e.fc != nil {
		for _, c := range e.fc.Requires {
			t, err := se.evalBool(c.Expr)
			if err != nil {
				return fmt.Errorf("%s:%d: requires: %v", c.File, c.Line, err)
			}
			e.sc.AssertNamed(t, "requires "+c.Text)
		}
		for _, c := range e.fc.Invs {
			t, err := se.evalBool(c.Expr)
			if err != nil {
				return fmt.Errorf("%s:%d: inv: %v", c.File, c.Line, err)
			}
			e.sc.AssertNamed(t, "closure invariant "+c.Text)
		}
	}
	// (environment step at entry is applied after the entry hooks, see below)
	// lock discipline: a function is entered holding no mutex except those its contract names with held(...)
	{
		h0 := e.lookup(e.entry, "L$held", ArraySort(SInt, SInt))
		init := T("((as const (Array Int Int)) 0)", ArraySort(SInt, SInt))
		for _, n := range e.heldNamed {
			hv := e.fresh("heldmode", SInt)
			e.sc.Assert(Or(Eq(hv, IntLit(1)), Eq(hv, IntLit(2))))
			init = Store(init, n, hv)
		}
		e.sc.AssertNamed(Eq(h0, init), "no mutex is held at entry except those named by held(...) in requires (checked at call sites by PROTO.lock.nested for the mutexes the callee acquires)")
	}
	if err := e.assumeGlobalInvs(e.entry); err != nil {
		return err
	}
	if e.isInit() {
		// the package initialiser runs once, with its guard still false
		if g, ok := e.fn.Pkg.Members["init$guard"].(*ssa.Global); ok {
			e.sc.AssertNamed(Not(e.loadPtr(e.entry, e.val(g), types.Typ[types.Bool])), "init runs with init$guard unset")
		}
	}
	e.cover("entry", TTrue)

	e.cur = e.copyState(e.entry)
	if e.fc != nil {
		for hi, h := range e.fc.Hooks {
			if h.When != "entry" {
				continue
			}
			e.hookHit[fmt.Sprintf("ghost#%d", hi)] = true
			for _, st := range h.Stmts {
				se := e.specEnv(e.entry, e.cur, nil)
				if err := e.execGhostStmt(se, st, "ghost assertion at entry", fn.Pos()); err != nil {
					return err
				}
			}
		}
	}
	if err := e.envStep(nil); err != nil {
		return err
	}
	order := e.rpo(fn.Blocks[0])
	for _, b := range order {
		if err := e.execBlock(b, b == fn.Blocks[0]); err != nil {
			return err
		}
	}
	// exceptional exits: run defers, maybe recover
	if err := e.handleExceptional(); err != nil {
		return err
	}
	if err := e.checkExit(); err != nil {
		return err
	}
	// every ghost hook / anchored assert must have matched a call site (a contract that anchors
	// to a call that no longer exists decides nothing)
	if e.fc != nil {
		for hi, h := range e.fc.Hooks {
			if !e.hookHit[fmt.Sprintf("ghost#%d", hi)] {
				e.obls = append(e.obls, &Obligation{Name: e.key + fmt.Sprintf("/ANCHOR.ghost#%d", hi), Class: "ANCHOR", Props: e.fc.Props, Expect: "unsat", Status: "failed",
					Desc: fmt.Sprintf("ghost hook '%s call %s #%d' matches no call site in the function", h.When, h.Callee, h.Ordinal), FuncKey: e.key,
					Result: SolverResult{Solver: "govc", Answer: "anchor-missing"}})
			}
		}
		for ai, a := range e.fc.Asserts {
			if !e.hookHit[fmt.Sprintf("assert#%d", ai)] {
				e.obls = append(e.obls, &Obligation{Name: e.key + fmt.Sprintf("/ANCHOR.assert#%d", ai), Class: "ANCHOR", Props: e.fc.Props, Expect: "unsat", Status: "failed",
					Desc: fmt.Sprintf("assert '%s call %s #%d' matches no call site in the function", a.When, a.Callee, a.Ordinal), FuncKey: e.key,
					Result: SolverResult{Solver: "govc", Answer: "anchor-missing"}})
			}
		}
	}
	return nil
}

type unsupportedErr string

func (e *Enc) unsupported(format string, args ...any) {
	panic(unsupportedErr(fmt.Sprintf(format, args...)))
}

// assumeAllocated: every pointer reachable at entry was allocated before (<= alloc).
func (e *Enc) assumeAllocated(v Term, t types.Type, alloc Term) {
	switch t.Underlying().(type) {
	case *types.Pointer, *types.Map, *types.Chan, *types.Signature:
		if v.Sort == SInt {
			e.sc.Assert(App(SBool, "<=", e.extentEnd(v, t), alloc))
		}
	case *types.Slice:
		e.sc.Assert(App(SBool, "<=", App(SInt, "sref", v), alloc))
	}
}

// extentEnd: a valid pointer to a module struct points to an object whose whole extent (its slots,
// nested structs included) lies in the allocated region; for nil and other pointers just the pointer.
func (e *Enc) extentEnd(v Term, t types.Type) Term {
	if pt, ok := t.Underlying().(*types.Pointer); ok {
		if _, isMod := e.tr.isModuleStruct(pt.Elem()); isMod {
			if span := e.tr.layout(pt.Elem()).span; span > 1 {
				return Ite(Eq(v, IntLit(0)), v, App(SInt, "+", v, IntLit(int64(span-1))))
			}
		}
	}
	return v
}

func (e *Enc) edge(from, to *ssa.BasicBlock) Term {
	if c, ok := e.edgeCond[[2]*ssa.BasicBlock{from, to}]; ok {
		return c
	}
	return TFalse
}

func (e *Enc) execBlock(b *ssa.BasicBlock, isEntry bool) error {
	e.curBlock = b
	li := e.loops[b]
	var preds []*ssa.BasicBlock
	for _, p := range b.Preds {
		if e.isBackEdge(p, b) {
			continue
		}
		if _, done := e.exitSt[p]; !done {
			continue // unreachable predecessor (e.g. dead code)
		}
		preds = append(preds, p)
	}
	// Note: a block may list the same predecessor twice (if c goto B else B); edge conditions are keyed by pair and or-ed.
	var g Term
	if isEntry {
		g = e.entryGuard
	} else {
		var conds []Term
		var states []*State
		seen := map[*ssa.BasicBlock]bool{}
		for _, p := range preds {
			if seen[p] {
				continue
			}
			seen[p] = true
			conds = append(conds, e.edge(p, b))
			states = append(states, e.exitSt[p])
		}
		if len(states) == 0 {
			// unreachable block
			e.guard[b] = TFalse
			return nil
		}
		gc := e.sc.Declare(fmt.Sprintf("g%s%d", e.inl, b.Index), SBool)
		e.sc.AssertDef(gc.S, Eq(gc, Or(conds...)))
		g = gc
		e.cur = e.mergeStates(states, conds)
	}
	e.guard[b] = g
	e.curGuard = g
	e.blockGuard = g
	e.extra = nil

	// phis
	phiEntryVals := map[*ssa.Phi]Term{}
	for _, ins := range b.Instrs {
		phi, ok := ins.(*ssa.Phi)
		if !ok {
			break
		}
		// value over non-back-edge predecessors
		var val Term
		first := true
		seen := map[*ssa.BasicBlock]bool{}
		for i := len(b.Preds) - 1; i >= 0; i-- {
			p := b.Preds[i]
			if e.isBackEdge(p, b) || seen[p] {
				continue
			}
			if _, done := e.exitSt[p]; !done {
				continue
			}
			seen[p] = true
			ev := e.val(phi.Edges[i])
			if first {
				val = ev
				first = false
			} else {
				val = Ite(e.edge(p, b), ev, val)
			}
		}
		if li == nil {
			e.define(phi, val)
		} else {
			phiEntryVals[phi] = val
		}
	}

	if li != nil {
		if err := e.enterLoop(li, phiEntryVals); err != nil {
			return err
		}
	}

	for _, ins := range b.Instrs {
		if _, ok := ins.(*ssa.Phi); ok {
			continue
		}
		if err := e.execInstr(ins); err != nil {
			return err
		}
	}
	e.exitSt[b] = e.cur
	// back edges out of this block: check invariants
	for _, s := range b.Succs {
		if e.isBackEdge(b, s) {
			if err := e.checkBackEdge(b, s); err != nil {
				return err
			}
		}
	}
	return nil
}

// writeSet describes what a loop body may write in one heap: either anything (whole), or only the
// listed pre-existing addresses plus objects allocated inside the loop.
type writeSet struct {
	sort  string
	whole bool
	addrs []Term
}

type writeSets map[string]*writeSet

func (ws writeSets) get(name, sort string) *writeSet {
	w, ok := ws[name]
	if !ok {
		w = &writeSet{sort: sort}
		ws[name] = w
	}
	return w
}

func (ws writeSets) whole(name, sort string) { ws.get(name, sort).whole = true }
func (ws writeSets) addr(name, sort string, a Term) {
	w := ws.get(name, sort)
	w.addrs = append(w.addrs, a)
}

// definedOutside: v is available before the loop is entered.
func (e *Enc) definedOutside(li *loopInfo, v ssa.Value) bool {
	switch x := v.(type) {
	case *ssa.Parameter, *ssa.FreeVar, *ssa.Global, *ssa.Const, *ssa.Function:
		return true
	case ssa.Instruction:
		if li.body[x.Block()] {
			return false
		}
		_, ok := e.vals[v]
		if a, isAlloc := v.(*ssa.Alloc); isAlloc && e.localCells[a] {
			return true
		}
		return ok
	}
	return false
}

// freshInLoop: v is an object allocated inside the loop body.
func freshInLoop(li *loopInfo, v ssa.Value) bool {
	ins, ok := v.(ssa.Instruction)
	if !ok || !li.body[ins.Block()] {
		return false
	}
	switch x := v.(type) {
	case *ssa.Alloc, *ssa.MakeSlice, *ssa.MakeMap, *ssa.MakeClosure, *ssa.MakeChan:
		return true
	case *ssa.Slice:
		return freshInLoop(li, x.X)
	case *ssa.Call:
		if b, ok := x.Call.Value.(*ssa.Builtin); ok && b.Name() == "append" {
			return true
		}
	}
	return false
}

// loopModifies computes what the loop body may write; all=true means everything.
func (e *Enc) loopModifies(li *loopInfo) (ws writeSets, all bool) {
	ws = writeSets{}
	for b := range li.body {
		for _, ins := range b.Instrs {
			switch x := ins.(type) {
			case *ssa.Store:
				e.storeWrites(li, x.Addr, ws)
			case *ssa.MapUpdate:
				mt := x.Map.Type().Underlying().(*types.Map)
				if freshInLoop(li, x.Map) {
					ws.get(e.mapHeap(mt), e.mapHeapSort(mt))
					ws.get(e.mapDomHeap(mt), e.mapDomSort(mt))
				} else if e.definedOutside(li, x.Map) {
					ws.addr(e.mapHeap(mt), e.mapHeapSort(mt), e.val(x.Map))
					ws.addr(e.mapDomHeap(mt), e.mapDomSort(mt), e.val(x.Map))
				} else {
					ws.whole(e.mapHeap(mt), e.mapHeapSort(mt))
					ws.whole(e.mapDomHeap(mt), e.mapDomSort(mt))
				}
			case *ssa.Alloc:
				if e.localCells[x] {
					ws.whole(e.localName(x), e.tr.sortOf(derefType(x.Type())))
				} else {
					t := derefType(x.Type())
					names := map[string]string{}
					if arr, ok := t.Underlying().(*types.Array); ok {
						names["E$"+e.tr.typeID(arr.Elem())] = ArraySort(SInt, ArraySort(SInt, e.tr.sortOf(arr.Elem())))
					} else {
						e.heapNamesOfType(t, names)
					}
					for n, srt := range names {
						ws.get(n, srt)
					}
				}
			case *ssa.Send:
				if e.fc != nil {
					for _, h := range e.fc.Hooks {
						if h.Callee == sendHookName(x.Chan) {
							for _, st := range h.Stmts {
								if st.Kind == "assign" {
									if g, ok := e.prog.cs.Ghosts[st.Target]; ok {
										if srt, err := ghostSort(g.Type); err == nil {
											ws.whole("G$"+st.Target, srt)
										}
									}
								}
							}
						}
					}
				}
			case *ssa.Select:
				if e.fc != nil {
					for _, h := range e.fc.Hooks {
						if strings.HasPrefix(h.Callee, "select:arm") {
							for _, st := range h.Stmts {
								if st.Kind == "assign" {
									if g, ok := e.prog.cs.Ghosts[st.Target]; ok {
										if srt, err := ghostSort(g.Type); err == nil {
											ws.whole("G$"+st.Target, srt)
										}
									}
								}
							}
						}
					}
				}
			case *ssa.MakeClosure:
				if e.fc != nil {
					for _, h := range e.fc.Hooks {
						if h.Callee == "closure:"+x.Fn.Name() {
							for _, st := range h.Stmts {
								if st.Kind == "assign" {
									if g, ok := e.prog.cs.Ghosts[st.Target]; ok {
										if srt, err := ghostSort(g.Type); err == nil {
											ws.whole("G$"+st.Target, srt)
										}
									}
								}
							}
						}
					}
				}
				ws.get("alloc", SInt)
			case *ssa.MakeSlice:
				et := x.Type().Underlying().(*types.Slice).Elem()
				ws.get("E$"+e.tr.typeID(et), ArraySort(SInt, ArraySort(SInt, e.tr.sortOf(et))))
			case *ssa.MakeMap:
				mt := x.Type().Underlying().(*types.Map)
				ws.get(e.mapHeap(mt), e.mapHeapSort(mt))
				ws.get(e.mapDomHeap(mt), e.mapDomSort(mt))
			case *ssa.Range:
				if _, isMap := x.X.Type().Underlying().(*types.Map); isMap {
					ws.whole(e.rangeVisitedName(x), e.rangeVisitedSort(x))
				}
			case *ssa.Next:
				if r, ok := x.Iter.(*ssa.Range); ok {
					if _, isMap := r.X.Type().Underlying().(*types.Map); isMap {
						ws.whole(e.rangeVisitedName(r), e.rangeVisitedSort(r))
					}
				}
			case ssa.CallInstruction:
				if a := e.callWrites(li, x, ws); a {
					return nil, true
				}
			}
		}
	}
	ws.whole("alloc", SInt)
	// an address term that reads a heap the loop itself writes is not loop-invariant
	for _, w := range ws {
		if w.whole {
			continue
		}
		for _, a := range w.addrs {
			for n2 := range ws {
				if n2 != "alloc" && (strings.Contains(a.S, n2+"@") || strings.Contains(a.S, n2+"!")) {
					w.whole = true
				}
			}
		}
	}
	return ws, false
}

// storeWrites classifies a store through addr.
func (e *Enc) storeWrites(li *loopInfo, addr ssa.Value, ws writeSets) {
	// find the root of the address chain
	root := addr
	var sliceRoot ssa.Value
	for {
		switch x := root.(type) {
		case *ssa.FieldAddr:
			root = x.X
			continue
		case *ssa.IndexAddr:
			if _, isSlice := x.X.Type().Underlying().(*types.Slice); isSlice {
				sliceRoot = x.X
			} else {
				root = x.X
				continue
			}
		}
		break
	}
	names := map[string]string{}
	e.staticStoreNames(addr, names)
	if a, ok := root.(*ssa.Alloc); ok && e.localCells[a] && sliceRoot == nil {
		for n, srt := range names {
			ws.whole(n, srt)
		}
		return
	}
	if sliceRoot != nil {
		switch {
		case freshInLoop(li, sliceRoot):
			for n, srt := range names {
				ws.get(n, srt)
			}
		case e.definedOutside(li, sliceRoot):
			for n, srt := range names {
				ws.addr(n, srt, App(SInt, "sref", e.val(sliceRoot)))
			}
		default:
			for n, srt := range names {
				ws.whole(n, srt)
			}
		}
		return
	}
	switch {
	case freshInLoop(li, root):
		for n, srt := range names {
			ws.get(n, srt)
		}
	case e.definedOutside(li, root):
		lv := e.lvalOf(addr)
		if lv.kind == lvElem {
			for n, srt := range names {
				ws.addr(n, srt, lv.ptr)
			}
			return
		}
		if lv.kind == lvPtr && lv.field >= 0 {
			for n, srt := range names {
				ws.addr(n, srt, lv.ptr)
			}
			return
		}
		if lv.kind == lvPtr && len(lv.path) == 0 {
			se := e.specEnv(e.entry, e.cur, nil)
			ts, err := se.allOf(specVal{t: lv.ptr, typ: types.NewPointer(lv.typ)})
			if err == nil {
				for _, t := range ts {
					ws.addr(t.heap, t.sort, t.index)
				}
				return
			}
		}
		for n, srt := range names {
			ws.whole(n, srt)
		}
	default:
		for n, srt := range names {
			ws.whole(n, srt)
		}
	}
}

func rootAlloc(v ssa.Value) *ssa.Alloc {
	for {
		switch x := v.(type) {
		case *ssa.Alloc:
			return x
		case *ssa.FieldAddr:
			v = x.X
		case *ssa.IndexAddr:
			if _, isPtr := x.X.Type().Underlying().(*types.Pointer); isPtr {
				v = x.X
			} else {
				return nil
			}
		default:
			return nil
		}
	}
}

func rootIndexAddr(v ssa.Value) *ssa.IndexAddr {
	for {
		switch x := v.(type) {
		case *ssa.FieldAddr:
			v = x.X
		case *ssa.IndexAddr:
			if _, isSlice := x.X.Type().Underlying().(*types.Slice); isSlice {
				return x
			}
			v = x.X
		default:
			return nil
		}
	}
}

func (e *Enc) enterLoop(li *loopInfo, phiEntry map[*ssa.Phi]Term) error {
	b := li.header
	// 1. invariant holds on entry (phis = entry values)
	for phi, v := range phiEntry {
		e.vals[phi] = v
	}
	invs := e.loopInvariants(li)
	se := e.specEnv(e.entry, e.cur, nil)
	se.loop = li
	for _, c := range invs {
		t, err := se.evalBool(c.Expr)
		if err != nil {
			return fmt.Errorf("%s:%d: loop invariant: %v", c.File, c.Line, err)
		}
		e.oblige(fmt.Sprintf("inv.entry.loop%d", li.ordinal), c.Label, c.Props, t, "loop invariant holds on entry: "+c.Text, b.Instrs[0].Pos())
	}
	// 2. havoc (with the loop frame: only listed pre-existing addresses and fresh objects change)
	ws, all := e.loopModifies(li)
	if all {
		e.cur = e.havocAll(e.cur)
	} else {
		var ns []string
		for n := range ws {
			ns = append(ns, n)
		}
		sort.Strings(ns)
		allocPre := e.lookup(e.cur, "alloc", SInt)
		for _, n := range ns {
			w := ws[n]
			if _, ok := e.heapSorts[n]; !ok {
				e.heapSorts[n] = w.sort
			}
			pre := e.lookup(e.cur, n, e.heapSorts[n])
			e.havocNames(e.cur, []string{n})
			if w.whole || !strings.HasPrefix(w.sort, "(Array Int ") {
				continue
			}
			post := e.lookup(e.cur, n, e.heapSorts[n])
			var ex []Term
			a := T("la", SInt)
			for _, ad := range w.addrs {
				ex = append(ex, Not(Eq(a, ad)))
			}
			body := Implies(And(append([]Term{App(SBool, "<=", a, allocPre)}, ex...)...), Eq(Select(post, a), Select(pre, a)))
			e.sc.AssertNamed(T(fmt.Sprintf("(forall ((la Int)) (! %s :pattern ((select %s la))))", body.S, post.S), SBool),
				fmt.Sprintf("loop %d frame for %s", li.ordinal, n))
		}
	}
	for phi := range phiEntry {
		delete(e.vals, phi)
	}
	for _, ins := range b.Instrs {
		phi, ok := ins.(*ssa.Phi)
		if !ok {
			break
		}
		c := e.defineFresh(phi)
		// a reference held in a variable at the loop header was allocated before this point
		switch phi.Type().Underlying().(type) {
		case *types.Pointer, *types.Map, *types.Chan, *types.Signature:
			if c.Sort == SInt {
				e.sc.Assert(Implies(e.curGuard, App(SBool, "<=", c, e.lookup(e.cur, "alloc", SInt))))
			}
		case *types.Slice:
			e.sc.Assert(Implies(e.curGuard, App(SBool, "<=", App(SInt, "sref", c), e.lookup(e.cur, "alloc", SInt))))
		}
		// a phi whose incoming values are all allocations of this function is a valid cell of this
		// activation: non-nil, allocated after entry, distinct from the other allocations
		if allAllocEdges(phi) {
			alloc0 := e.lookup(e.entry, "alloc", SInt)
			e.sc.Assert(Implies(e.curGuard, And(App(SBool, ">", c, alloc0), App(SBool, "<=", c, e.lookup(e.cur, "alloc", SInt)))))
			edges := map[ssa.Value]bool{}
			for _, ed := range phi.Edges {
				edges[ed] = true
			}
			for _, bb := range e.fn.Blocks {
				for _, ins := range bb.Instrs {
					if a, ok := ins.(*ssa.Alloc); ok && !edges[a] && !e.localCells[a] {
						if av, ok := e.vals[a]; ok && !li.body[a.Block()] {
							e.sc.Assert(Implies(e.curGuard, Not(Eq(c, av))))
						}
					}
				}
			}
		}
	}
	// 3. assume invariants
	se = e.specEnv(e.entry, e.cur, nil)
	se.loop = li
	for _, c := range invs {
		t, err := se.evalBool(c.Expr)
		if err != nil {
			return fmt.Errorf("%s:%d: loop invariant: %v", c.File, c.Line, err)
		}
		e.sc.AssertNamed(Implies(e.curGuard, t), fmt.Sprintf("assume loop %d invariant: %s", li.ordinal, c.Text))
	}
	return nil
}

// loopInvariants: the invariant clauses in force for loop li. The clauses of the contract are split into
// their top-level conjuncts; a conjunct that cannot be evaluated at the loop head (it names a variable that
// does not exist in this code: e.g. the index variable after a loop changed from index form to range form) is
// skipped with a note instead of aborting generation: the invariant is an internal proof artifact, so a weaker
// one is sound: if what remains is too weak, a real obligation fails. The standard bounds of the loop forms
// the Go front end generates (range over a slice, range over an integer) are added automatically.
func (e *Enc) loopInvariants(li *loopInfo) []Clause {
	if e.fc == nil {
		return nil
	}
	if cached, ok := e.loopInvCache[li]; ok {
		return cached
	}
	var out []Clause
	se := e.specEnv(e.entry, e.cur, nil)
	se.loop = li
	se.pure = true
	try := func(x SExpr) bool {
		nDecl, nAss := len(e.sc.Decls), len(e.sc.Asserts)
		_, err := se.evalBool(x)
		_ = nDecl
		_ = nAss
		return err == nil
	}
	var split func(x SExpr, into *[]SExpr)
	split = func(x SExpr, into *[]SExpr) {
		if b, ok := x.(*SBin); ok && b.Op == "&&" {
			split(b.L, into)
			split(b.R, into)
			return
		}
		*into = append(*into, x)
	}
	own := e.fc.LoopInv[li.ordinal]
	if len(own) == 0 && e.inl == "" {
		own = e.adoptInvariants(li, se)
	}
	for _, c := range own {
		if try(c.Expr) {
			out = append(out, c)
			continue
		}
		var parts []SExpr
		split(c.Expr, &parts)
		kept := 0
		for k, pt := range parts {
			if !try(pt) {
				e.abstracted[fmt.Sprintf("loop %d invariant: conjunct %q skipped (it refers to names that do not exist in this code)", li.ordinal, pt.String())] = true
				continue
			}
			cl := c
			cl.Expr = pt
			cl.Text = pt.String()
			if c.Label != "" {
				cl.Label = fmt.Sprintf("%s.%d", c.Label, k)
			}
			out = append(out, cl)
			kept++
		}
	}
	for _, txt := range []string{"-1 <= rangeindex && rangeindex < len(rangeexpr)", "0 <= rangeiter && rangeiter < rangebound"} {
		x, err := parseSpecExpr(txt)
		if err == nil && try(x) {
			out = append(out, Clause{Kind: "loopinv", Label: "auto-bounds", Text: txt + " (automatic)", Expr: x, File: "(automatic)"})
		}
	}
	if e.loopInvCache == nil {
		e.loopInvCache = map[*loopInfo][]Clause{}
	}
	e.loopInvCache[li] = out
	return out
}

// adoptInvariants: a loop of this function that has no invariant of its own may be the loop of a helper that has
// since been merged into this function by hand (the helper no longer exists, its contract is still in the contract
// file, and this function is recorded as one of its callers). The helper's loop invariants are then tried for the
// loop: its parameters are bound to the value of the same name, or else to the only parameter or local allocation of
// this function that has the parameter's recorded type; conjuncts that speak about the helper's entry state (old) or
// that do not evaluate are dropped. Invariants are proof artifacts that are checked on entry and on every back edge,
// so adopting any candidate is sound; if what remains is too weak, a real obligation fails.
func (e *Enc) adoptInvariants(li *loopInfo, se *specEnv) []Clause {
	p := e.prog
	p.loadSignatures()
	me := p.funcKey(e.topFn)
	// this function's loops without own invariants, by ordinal
	var bare []int
	for _, l := range e.loops {
		if l.header.Parent() == e.topFn && len(e.fc.LoopInv[l.ordinal]) == 0 {
			bare = append(bare, l.ordinal)
		}
	}
	sort.Ints(bare)
	idx := sort.SearchInts(bare, li.ordinal)
	type cand struct {
		fc  *FuncContract
		sk  string
		ord int
	}
	var cands []cand
	var keys []string
	for key := range p.cs.Funcs {
		keys = append(keys, key)
	}
	sort.Strings(keys)
	for _, key := range keys {
		fc := p.cs.Funcs[key]
		if fc.Variant != "" || p.funcs[key] != nil || len(fc.LoopInv) == 0 {
			continue
		}
		sk := p.shortKey(key)
		rs, ok := p.sigs[sk]
		if !ok {
			continue
		}
		called := false
		for _, c := range rs.Callers {
			called = called || c == me
		}
		if !called {
			continue
		}
		var ords []int
		for o := range fc.LoopInv {
			ords = append(ords, o)
		}
		sort.Ints(ords)
		for _, o := range ords {
			cands = append(cands, cand{fc, sk, o})
		}
	}
	if idx >= len(cands) {
		return nil
	}
	c := cands[idx]
	rs := p.sigs[c.sk]
	qual := func(pk *types.Package) string { return pk.Path() }
	for i, name := range rs.Params {
		if i >= len(rs.ParamTypes) || name == "" || name == "_" {
			continue
		}
		if _, err := se.evalIdent(name); err == nil {
			continue
		}
		var found []ssa.Value
		for _, prm := range e.topFn.Params {
			if types.TypeString(prm.Type(), qual) == rs.ParamTypes[i] {
				found = append(found, prm)
			}
		}
		for _, b := range e.topFn.Blocks {
			for _, ins := range b.Instrs {
				if a, ok := ins.(*ssa.Alloc); ok && types.TypeString(a.Type(), qual) == rs.ParamTypes[i] {
					found = append(found, a)
				}
			}
		}
		if len(found) == 1 {
			if t, ok := e.vals[found[0]]; ok {
				se.binds[name] = specVal{t: t, typ: found[0].Type()}
				if e.extraBinds == nil {
					e.extraBinds = map[string]specVal{}
				}
				e.extraBinds[name] = se.binds[name]
			}
		}
	}
	var out []Clause
	var split func(x SExpr, into *[]SExpr)
	split = func(x SExpr, into *[]SExpr) {
		if b, ok := x.(*SBin); ok && b.Op == "&&" {
			split(b.L, into)
			split(b.R, into)
			return
		}
		*into = append(*into, x)
	}
	for _, cl := range c.fc.LoopInv[c.ord] {
		var parts []SExpr
		split(cl.Expr, &parts)
		for k, pt := range parts {
			if strings.Contains(pt.String(), "old(") {
				continue
			}
			n := cl
			n.Expr = pt
			n.Text = pt.String() + " (adopted from " + c.sk + ")"
			n.Label = fmt.Sprintf("adopted%d.%d", len(out), k)
			out = append(out, n)
		}
	}
	e.abstracted[fmt.Sprintf("loop %d has no invariant of its own: the loop invariants of %s (a helper that no longer exists and was called from here) are tried for it", li.ordinal, c.sk)] = true
	return out
}

func (e *Enc) checkBackEdge(from, header *ssa.BasicBlock) error {
	li := e.loops[header]
	invs := e.loopInvariants(li)
	if len(invs) == 0 {
		return nil
	}
	cond := e.edge(from, header)
	// bind phis to back-edge values
	saved := map[*ssa.Phi]Term{}
	idx := -1
	for i, p := range header.Preds {
		if p == from {
			idx = i
		}
	}
	for _, ins := range header.Instrs {
		phi, ok := ins.(*ssa.Phi)
		if !ok {
			break
		}
		saved[phi] = e.vals[phi]
	}
	newVals := map[*ssa.Phi]Term{}
	for phi := range saved {
		newVals[phi] = e.val(phi.Edges[idx])
	}
	for phi, v := range newVals {
		e.vals[phi] = v
	}
	se := e.specEnv(e.entry, e.exitSt[from], nil)
	se.loop = li
	for _, c := range invs {
		t, err := se.evalBool(c.Expr)
		if err != nil {
			return fmt.Errorf("%s:%d: loop invariant: %v", c.File, c.Line, err)
		}
		e.obligeG(cond, fmt.Sprintf("inv.preserve.loop%d", li.ordinal), c.Label, c.Props, t, "loop invariant preserved: "+c.Text, header.Instrs[0].Pos())
	}
	for phi, v := range saved {
		e.vals[phi] = v
	}
	return nil
}

// ---------------------------------------------------------------------------

func (e *Enc) execInstr(ins ssa.Instruction) error {
	switch x := ins.(type) {
	case *ssa.DebugRef:
		if e.debugSeen == nil {
			e.debugSeen = map[*ssa.DebugRef]int{}
		}
		e.debugSeq++
		e.debugSeen[x] = e.debugSeq
		return nil
	case *ssa.Alloc:
		t := derefType(x.Type())
		if e.localCells[x] {
			e.set(e.cur, e.localName(x), e.tr.zeroOf(t))
			return nil
		}
		ref := e.allocRef(t)
		e.define(x, ref)
		e.zeroInit(e.vals[x], t)
		return nil
	case *ssa.UnOp:
		return e.execUnOp(x)
	case *ssa.BinOp:
		e.define(x, e.binop(x.Op, e.val(x.X), e.val(x.Y), x.X.Type(), x))
		return nil
	case *ssa.Store:
		lv := e.lvalOf(x.Addr)
		e.checkNilLV(lv, x.Addr, x.Pos())
		if sv := e.val(x.Val); sv.Sort == SReal {
			e.finiteUse(x, "stored", sv)
		}
		e.store(lv, e.val(x.Val))
		return nil
	case *ssa.FieldAddr, *ssa.IndexAddr:
		// evaluated lazily as l-values; bounds / nil checks here
		if ia, ok := x.(*ssa.IndexAddr); ok {
			e.checkIndex(ia.X, ia.Index, ia.Pos())
		}
		if fa, ok := x.(*ssa.FieldAddr); ok {
			_ = fa
		}
		return nil
	case *ssa.Field:
		v := e.val(x.X)
		st := x.X.Type().Underlying().(*types.Struct)
		if _, ok := e.tr.isModuleStruct(x.X.Type()); !ok {
			e.defineFresh(x)
			return nil
		}
		e.define(x, App(e.tr.sortOf(x.Type()), v.Sort+"_"+fieldName(st.Field(x.Field), x.Field), v))
		return nil
	case *ssa.Index:
		v := e.val(x.X)
		switch x.X.Type().Underlying().(type) {
		case *types.Array:
			e.define(x, Select(v, e.val(x.Index)))
		default:
			// string indexing
			e.checkStringIndex(v, e.val(x.Index), x.Pos())
			e.defineFresh(x)
		}
		return nil
	case *ssa.Phi:
		return nil
	case *ssa.If:
		c := e.val(x.Cond)
		b := x.Block()
		e.addEdge(b, b.Succs[0], And(e.curGuard, c))
		e.addEdge(b, b.Succs[1], And(e.curGuard, Not(c)))
		return nil
	case *ssa.Jump:
		b := x.Block()
		e.addEdge(b, b.Succs[0], e.curGuard)
		return nil
	case *ssa.Return:
		var rs []Term
		for _, r := range x.Results {
			rs = append(rs, e.val(r))
		}
		e.rets = append(e.rets, retEdge{e.curGuard, e.cur, rs})
		e.cur = e.copyState(e.cur)
		return nil
	case *ssa.Panic:
		pv := e.val(x.X)
		e.raise(e.curGuard, pv)
		return nil
	case *ssa.RunDefers:
		return e.runDefers(false)
	case *ssa.Defer:
		return e.execDefer(x)
	case *ssa.Go:
		return e.execGo(x)
	case *ssa.Call:
		return e.execCall(x)
	case *ssa.Extract:
		tup, ok := e.tuples[x.Tuple]
		if !ok {
			e.unsupported("extract from unknown tuple %s", x.Tuple.Name())
		}
		e.define(x, tup[x.Index])
		return nil
	case *ssa.ChangeType:
		e.define(x, e.val(x.X))
		return nil
	case *ssa.ChangeInterface:
		e.define(x, e.val(x.X))
		return nil
	case *ssa.Convert:
		e.define(x, e.convert(e.val(x.X), x.X.Type(), x.Type(), x))
		return nil
	case *ssa.MakeInterface:
		e.define(x, e.makeIface(e.val(x.X), x.X.Type()))
		return nil
	case *ssa.TypeAssert:
		return e.execTypeAssert(x)
	case *ssa.MakeClosure:
		return e.execMakeClosure(x)
	case *ssa.MakeSlice:
		ln := e.val(x.Len)
		e.oblige("SAFE.make", "", nil, App(SBool, ">=", ln, IntLit(0)), "make: length must be non-negative", x.Pos())
		et := x.Type().Underlying().(*types.Slice).Elem()
		ref := e.allocRef(types.NewArray(et, 1))
		name := "E$" + e.tr.typeID(et)
		es := e.tr.sortOf(et)
		h := e.lookup(e.cur, name, ArraySort(SInt, ArraySort(SInt, es)))
		zero := Term{fmt.Sprintf("((as const %s) %s)", ArraySort(SInt, es), e.tr.zeroOf(et).S), ArraySort(SInt, es)}
		e.set(e.cur, name, Store(h, ref, zero))
		e.define(x, App(SSlice, "mkslice", ref, ln))
		return nil
	case *ssa.Slice:
		return e.execSlice(x)
	case *ssa.MakeMap:
		mt := x.Type().Underlying().(*types.Map)
		ref := e.allocRef(mt)
		dn := e.mapDomHeap(mt)
		dh := e.lookup(e.cur, dn, e.mapDomSort(mt))
		ks := e.tr.sortOf(mt.Key())
		e.set(e.cur, dn, Store(dh, ref, Term{fmt.Sprintf("((as const %s) false)", ArraySort(ks, SBool)), ArraySort(ks, SBool)}))
		e.define(x, ref)
		return nil
	case *ssa.MapUpdate:
		mt := x.Map.Type().Underlying().(*types.Map)
		m := e.val(x.Map)
		e.oblige("SAFE.nil", "", nil, Not(Eq(m, IntLit(0))), "assignment to entry in nil map", x.Pos())
		if types.IsInterface(mt.Key()) {
			e.hashObligation(e.val(x.Key), x.Pos(), "map key")
		}
		hn, dn := e.mapHeap(mt), e.mapDomHeap(mt)
		h := e.lookup(e.cur, hn, e.mapHeapSort(mt))
		d := e.lookup(e.cur, dn, e.mapDomSort(mt))
		e.set(e.cur, hn, Store(h, m, Store(Select(h, m), e.val(x.Key), e.val(x.Value))))
		e.set(e.cur, dn, Store(d, m, Store(Select(d, m), e.val(x.Key), TTrue)))
		return nil
	case *ssa.Lookup:
		return e.execLookup(x)
	case *ssa.Range:
		if _, isMap := x.X.Type().Underlying().(*types.Map); isMap {
			ks := e.tr.sortOf(x.X.Type().Underlying().(*types.Map).Key())
			e.set(e.cur, e.rangeVisitedName(x), Term{fmt.Sprintf("((as const %s) false)", ArraySort(ks, SBool)), ArraySort(ks, SBool)})
		}
		e.vals[x] = IntLit(0)
		return nil
	case *ssa.Next:
		return e.execNext(x)
	case *ssa.MakeChan:
		ref := e.allocRef(x.Type())
		e.define(x, ref)
		cl := e.lookup(e.cur, "G$closedchans", ArraySort(SInt, SBool))
		e.set(e.cur, "G$closedchans", Store(cl, e.vals[x], TFalse))
		if e.localClosesOnly(x) {
			e.privateChans = append(e.privateChans, e.vals[x])
		}
		return nil
	case *ssa.Send:
		e.abstracted["channel send"] = true
		return e.onSend(x)
	case *ssa.Select:
		return e.execSelect(x)
	case *ssa.SliceToArrayPointer, *ssa.MultiConvert:
		e.unsupported("%T", x)
	}
	e.unsupported("instruction %T: %s", ins, ins.String())
	return nil
}

func (e *Enc) addEdge(from, to *ssa.BasicBlock, c Term) {
	k := [2]*ssa.BasicBlock{from, to}
	if old, ok := e.edgeCond[k]; ok {
		e.edgeCond[k] = Or(old, c)
	} else {
		e.edgeCond[k] = c
	}
}

func (e *Enc) checkNilLV(lv LVal, addr ssa.Value, pos token.Pos) {
	if lv.kind != lvPtr {
		return
	}
	// only raw pointer values can be nil (allocs and interior addresses of non-nil bases are derived)
	switch a := addr.(type) {
	case *ssa.Alloc:
		return
	case *ssa.Global:
		return
	case *ssa.FieldAddr:
		e.checkNilLV(e.lvalOf(a.X), a.X, pos)
		return
	case *ssa.IndexAddr:
		return
	}
	e.oblige("SAFE.nil", "", nil, Not(Eq(lv.ptr, IntLit(0))), "nil pointer dereference of "+addr.Name(), pos)
}

func (e *Enc) checkIndex(x, idx ssa.Value, pos token.Pos) {
	i := e.val(idx)
	switch u := x.Type().Underlying().(type) {
	case *types.Slice:
		sv := e.val(x)
		e.oblige("SAFE.index", "", nil, And(App(SBool, "<=", IntLit(0), i), App(SBool, "<", i, App(SInt, "slen", sv))),
			"index out of range", pos)
	case *types.Pointer:
		arr := u.Elem().Underlying().(*types.Array)
		if _, isConst := idx.(*ssa.Const); isConst {
			return
		}
		e.oblige("SAFE.index", "", nil, And(App(SBool, "<=", IntLit(0), i), App(SBool, "<", i, IntLit(arr.Len()))),
			"array index out of range", pos)
	}
}

func (e *Enc) checkStringIndex(s, i Term, pos token.Pos) {
	e.oblige("SAFE.index", "", nil, And(App(SBool, "<=", IntLit(0), i), App(SBool, "<", i, App(SInt, "str.len", s))),
		"string index out of range", pos)
}

func (e *Enc) execUnOp(x *ssa.UnOp) error {
	switch x.Op {
	case token.MUL:
		if fv, ok := x.X.(*ssa.FreeVar); ok {
			if c, isConst := e.fvConst[e.vals[fv].S]; isConst {
				e.define(x, c)
				return nil
			}
		}
		if a, ok := x.X.(*ssa.Alloc); ok && !e.localCells[a] {
			// a captured variable written once before any closure is created and only read afterwards
			if st := e.writeOnceStore(a); st != nil && before(st, x) {
				if sv, defined := e.vals[st.Val]; defined {
					e.define(x, sv)
					e.assumed["captured variables that are written once before the closure is created and only read afterwards have a fixed value (site scan of every function capturing them)"] = true
					return nil
				}
			}
		}
		lv := e.lvalOf(x.X)
		e.checkNilLV(lv, x.X, x.Pos())
		v := e.purify(e.load(lv))
		e.define(x, v)
		c := e.vals[x]
		e.sc.Assert(Implies(e.curGuard, e.tr.rangeAssumption(c, x.Type(), 0)))
		// loaded references were allocated earlier
		e.assumeAllocatedG(c, x.Type())
		return nil
	case token.NOT:
		e.define(x, Not(e.val(x.X)))
	case token.SUB:
		v := e.val(x.X)
		if v.Sort == SReal {
			e.define(x, App(SReal, "-", v))
		} else {
			e.define(x, App(SInt, "-", v))
		}
	case token.ARROW:
		// channel receive: unconstrained value
		e.abstracted["channel receive"] = true
		if x.CommaOk {
			et := x.X.Type().Underlying().(*types.Chan).Elem()
			v := e.fresh("recv", e.tr.sortOf(et))
			ok := e.fresh("recvok", SBool)
			e.tuples[x] = []Term{v, ok}
			e.vals[x] = IntLit(0)
		} else {
			e.defineFresh(x)
		}
		e.onChanRecv(x)
	case token.XOR:
		e.defineFresh(x)
	default:
		e.unsupported("unop %s", x.Op)
	}
	return nil
}

func (e *Enc) assumeAllocatedG(v Term, t types.Type) {
	alloc := e.lookup(e.cur, "alloc", SInt)
	switch t.Underlying().(type) {
	case *types.Pointer, *types.Map, *types.Chan, *types.Signature:
		if v.Sort == SInt {
			e.sc.Assert(Implies(e.curGuard, App(SBool, "<=", e.extentEnd(v, t), alloc)))
		}
	case *types.Slice:
		e.sc.Assert(Implies(e.curGuard, App(SBool, "<=", App(SInt, "sref", v), alloc)))
	}
}

func isFloatType(t types.Type) bool {
	b, ok := t.Underlying().(*types.Basic)
	return ok && b.Info()&types.IsFloat != 0
}

func isStringType(t types.Type) bool {
	b, ok := t.Underlying().(*types.Basic)
	return ok && b.Info()&types.IsString != 0
}

func isUnsigned(t types.Type) bool {
	b, ok := t.Underlying().(*types.Basic)
	return ok && b.Info()&types.IsUnsigned != 0
}

func (e *Enc) binop(op token.Token, a, b Term, opType types.Type, at ssa.Instruction) Term {
	if a.Sort == SReal && e.fc != nil && e.fc.FPAbstract {
		// abstract floats: any value including NaN/Inf; comparisons are unconstrained
		e.abstracted["fp-abstract: float64 values in this function are unconstrained (covers NaN and infinities); comparisons on them are nondeterministic"] = true
		switch op {
		case token.EQL, token.NEQ, token.LSS, token.LEQ, token.GTR, token.GEQ:
			return e.fresh("fcmp", SBool)
		}
		return e.fresh("fabs", SReal)
	}
	switch op {
	case token.EQL:
		if a.Sort == SReal {
			e.finiteUse(at, "compared", a, b)
		}
		return Eq(a, b)
	case token.NEQ:
		if a.Sort == SReal {
			e.finiteUse(at, "compared", a, b)
		}
		return Not(Eq(a, b))
	}
	if a.Sort == SBool {
		switch op {
		case token.AND, token.LAND:
			return And(a, b)
		case token.OR, token.LOR:
			return Or(a, b)
		}
	}
	if a.Sort == SString {
		switch op {
		case token.ADD:
			return App(SString, "str.++", a, b)
		case token.LSS:
			return App(SBool, "str.<", a, b)
		case token.LEQ:
			return App(SBool, "str.<=", a, b)
		case token.GTR:
			return App(SBool, "str.<", b, a)
		case token.GEQ:
			return App(SBool, "str.<=", b, a)
		}
	}
	if a.Sort == SReal || b.Sort == SReal {
		a, b = ToReal(a), ToReal(b)
		// integer-valued floats (syntactically to_real of an integer term): sums and differences are
		// exact below 2^53, which is an obligation here; the arithmetic then stays in the integers
		if op == token.ADD || op == token.SUB {
			if wa, ok := intWitness(a); ok {
				if wb, ok := intWitness(b); ok {
					o := "+"
					if op == token.SUB {
						o = "-"
					}
					w := App(SInt, o, wa, wb)
					e.oblige("FP.exact", "", nil, And(App(SBool, "<=", T("(- 9007199254740992)", SInt), w), App(SBool, "<=", w, T("9007199254740992", SInt))),
						"sum/difference of integer-valued float64 values must stay within 2^53 (then it is exact)", at.Pos())
					return App(SReal, "to_real", w)
				}
			}
		}
		switch op {
		case token.ADD:
			return e.rnd(App(SReal, "+", a, b))
		case token.SUB:
			return e.rnd(App(SReal, "-", a, b))
		case token.MUL:
			return e.rnd(App(SReal, "*", a, b))
		case token.QUO:
			// a zero divisor gives Inf/NaN, which is not a panic: the quotient is then an arbitrary value that is
			// tainted; FP.finite obligations arise only where a tainted value is compared, converted, stored or passed on
			q := e.rnd(App(SReal, "/", a, b))
			if !isNonZeroRealLit(b) {
				e.addTaint(q, And(e.curGuard, Eq(b, T("0.0", SReal))))
			}
			return q
		case token.LSS, token.LEQ, token.GTR, token.GEQ:
			e.finiteUse(at, "compared", a, b)
			o := map[token.Token]string{token.LSS: "<", token.LEQ: "<=", token.GTR: ">", token.GEQ: ">="}[op]
			return App(SBool, o, a, b)
		}
	}
	switch op {
	case token.ADD:
		return e.wrapArith(App(SInt, "+", a, b), opType)
	case token.SUB:
		return e.wrapArith(App(SInt, "-", a, b), opType)
	case token.MUL:
		// products of machine integers overflow easily: the result must fit (OVF obligation) unless one
		// factor is a small literal
		if lo, hi, ok := intRange(opType); ok && !isUnsigned(opType) && !(isSmallLit(a) || isSmallLit(b)) {
			p := App(SInt, "*", a, b)
			e.oblige("OVF", "", nil, And(App(SBool, "<=", IntLitS(lo), p), App(SBool, "<=", p, IntLitS(hi))), "signed integer multiplication must not overflow", at.Pos())
		}
		return e.wrapArith(App(SInt, "*", a, b), opType)
	case token.QUO:
		e.oblige("SAFE.div", "", nil, Not(Eq(b, IntLit(0))), "integer divide by zero", at.Pos())
		return App(SInt, "tdiv", a, b)
	case token.REM:
		e.oblige("SAFE.div", "", nil, Not(Eq(b, IntLit(0))), "integer divide by zero (modulo)", at.Pos())
		return App(SInt, "tmod", a, b)
	case token.LSS:
		return App(SBool, "<", a, b)
	case token.LEQ:
		return App(SBool, "<=", a, b)
	case token.GTR:
		return App(SBool, ">", a, b)
	case token.GEQ:
		return App(SBool, ">=", a, b)
	}
	e.abstracted["bit operation "+op.String()] = true
	return e.fresh("bitop", a.Sort)
}

// wrapArith: machine integer results. Signed overflow is assumed not to happen (reported as an
// assumption); unsigned arithmetic wraps modulo 2^n exactly.
func (e *Enc) wrapArith(t Term, typ types.Type) Term {
	if isUnsigned(typ) {
		_, hi, ok := intRange(typ)
		if ok {
			mod := new(strings.Builder)
			// hi + 1
			mod.WriteString(incDec(hi))
			return App(SInt, "mod", t, T(mod.String(), SInt))
		}
	}
	e.assumed["signed integer arithmetic does not overflow (treated as mathematical)"] = true
	return t
}

func incDec(dec string) string {
	// decimal string + 1
	bs := []byte(dec)
	i := len(bs) - 1
	for i >= 0 {
		if bs[i] == '9' {
			bs[i] = '0'
			i--
		} else {
			bs[i]++
			return string(bs)
		}
	}
	return "1" + string(bs)
}

func (e *Enc) convert(v Term, from, to types.Type, at ssa.Instruction) Term {
	fs, ts := e.tr.sortOf(from), e.tr.sortOf(to)
	switch {
	case fs == SInt && ts == SInt:
		flo, fhi, fok := intRange(from)
		tlo, thi, tok := intRange(to)
		if !fok || !tok || (flo == tlo && fhi == thi) {
			return v
		}
		// widening is identity; otherwise wrap
		if cmpDec(tlo, flo) <= 0 && cmpDec(fhi, thi) <= 0 {
			return v
		}
		mod := T(incDec(decSub(thi, tlo)), SInt) // 2^n
		if tlo == "0" {
			return App(SInt, "mod", v, mod)
		}
		// signed target: ((v - lo) mod 2^n) + lo
		lo := IntLitS(tlo)
		return App(SInt, "+", App(SInt, "mod", App(SInt, "-", v, lo), mod), lo)
	case fs == SInt && ts == SReal:
		// exact below 2^53, rounded above
		// exact for integers up to 2^53. By default that magnitude is an obligation (FP.exact) and the
		// conversion is then exact; a contract may declare `fp-inexact` to get the rounded value instead.
		if e.fc != nil && e.fc.FPAbstract {
			return e.fresh("fabs", SReal)
		}
		if e.fc != nil && e.fc.FPInexact {
			r := e.rnd(ToReal(v))
			e.sc.AssertKeyed(r.S+" ", Implies(And(App(SBool, "<=", T("(- 9007199254740992)", SInt), v), App(SBool, "<=", v, T("9007199254740992", SInt))), Eq(r, ToReal(v))))
			return r
		}
		if _, isConst := at.(*ssa.Convert).X.(*ssa.Const); !isConst {
			e.oblige("FP.exact", "", nil, And(App(SBool, "<=", T("(- 9007199254740992)", SInt), v), App(SBool, "<=", v, T("9007199254740992", SInt))),
				"integer converted to float64 must be at most 2^53 in magnitude (then the conversion is exact)", at.Pos())
		}
		return ToReal(v)
	case fs == SReal && ts == SInt:
		if e.fc != nil && e.fc.FPAbstract {
			// out-of-range / NaN conversions give an implementation-defined value, never a panic
			r := e.fresh("f2i", SInt)
			e.sc.Assert(Implies(e.curGuard, e.tr.rangeAssumption(r, to, 0)))
			return r
		}
		e.finiteUse(at, "converted to an integer", v)
		e.assumed["float64 to integer conversions stay within the integer range"] = true
		if w, ok := intWitness(v); ok {
			return w
		}
		return App(SInt, "rtrunc", v)
	case fs == SReal && ts == SReal:
		return v
	case fs == SString && ts == SString:
		return v
	case fs == SInt && ts == SString:
		e.abstracted["string(rune) conversion"] = true
		return e.fresh("runestr", SString)
	case fs == SSlice && ts == SString, fs == SString && ts == SSlice:
		e.abstracted["string/[]byte conversion"] = true
		return e.fresh("conv", ts)
	}
	if fs == ts {
		return v
	}
	e.unsupported("conversion %s -> %s", from, to)
	return v
}

func cmpDec(a, b string) int {
	na, nb := strings.HasPrefix(a, "-"), strings.HasPrefix(b, "-")
	switch {
	case na && !nb:
		return -1
	case !na && nb:
		return 1
	case na && nb:
		return -cmpDec(a[1:], b[1:])
	}
	if len(a) != len(b) {
		if len(a) < len(b) {
			return -1
		}
		return 1
	}
	return strings.Compare(a, b)
}

// decSub computes hi - lo for the fixed set of integer ranges (lo is 0 or -(hi+1)).
func decSub(hi, lo string) string {
	if lo == "0" {
		return hi
	}
	// hi - (-(hi+1)) = 2*hi + 1
	// double hi then +1
	bs := []byte(hi)
	carry := byte(0)
	for i := len(bs) - 1; i >= 0; i-- {
		d := (bs[i]-'0')*2 + carry
		bs[i] = d%10 + '0'
		carry = d / 10
	}
	s := string(bs)
	if carry > 0 {
		s = string('0'+carry) + s
	}
	return incDec(s)
}

func (e *Enc) makeIface(v Term, t types.Type) Term {
	if v.Sort == SIface {
		return v
	}
	tid := IntLit(int64(e.tr.tid(t)))
	e.sc.DeclareFun("hashableT", []string{SInt}, SBool)
	e.sc.AssertKeyed("hashableT "+tid.S, Eq(App(SBool, "hashableT", tid), BoolLit(types.Comparable(t))))
	var iv Term
	switch v.Sort {
	case SInt:
		iv = v
	case SBool:
		iv = Ite(v, IntLit(1), IntLit(0))
	default:
		fn := "box_" + sanitize(v.Sort)
		e.sc.DeclareFun(fn, []string{v.Sort}, SInt)
		iv = App(SInt, fn, v)
	}
	return App(SIface, "mkiface", tid, iv)
}

// hashObligation: an interface value used as a map or sync.Map key is hashed; hashing a value whose dynamic type is
// not comparable (slice, map, function, or a struct/array containing one) panics. hashableT is an uninterpreted
// predicate over dynamic type ids, fixed for every type the function itself boxes (makeIface); a value of unknown
// origin (a recovered panic value, a result of an unmodelled call) may have any dynamic type.
func (e *Enc) hashObligation(key Term, pos token.Pos, what string) {
	if key.Sort != SIface {
		return
	}
	e.sc.DeclareFun("hashableT", []string{SInt}, SBool)
	ityp := App(SInt, "ityp", key)
	e.assumed["a comparable struct or array type with interface-typed fields holds only comparable values in them when hashed"] = true
	e.oblige("SAFE.hash", "", nil, Or(Eq(ityp, IntLit(0)), App(SBool, "hashableT", ityp)), what+" of interface type: its dynamic type must be comparable (hashing an unhashable value panics)", pos)
}

func (e *Enc) execTypeAssert(x *ssa.TypeAssert) error {
	v := e.val(x.X)
	ityp := App(SInt, "ityp", v)
	var ok, res Term
	if types.IsInterface(x.AssertedType) {
		pred := "implements_" + e.tr.typeID(x.AssertedType)
		e.sc.DeclareFun(pred, []string{SInt}, SBool)
		ok = And(Not(Eq(ityp, IntLit(0))), App(SBool, pred, ityp))
		res = Ite(ok, v, T("(mkiface 0 0)", SIface))
		e.noteImplements(x.AssertedType, pred)
	} else {
		ok = Eq(ityp, IntLit(int64(e.tr.tid(x.AssertedType))))
		srt := e.tr.sortOf(x.AssertedType)
		switch srt {
		case SInt:
			res = Ite(ok, App(SInt, "ival", v), IntLit(0))
		default:
			res = e.fresh("unbox", srt)
		}
	}
	if x.CommaOk {
		e.tuples[x] = []Term{res, ok}
		e.vals[x] = IntLit(0)
		return nil
	}
	e.oblige("SAFE.assertion", "", nil, ok, "type assertion without ok", x.Pos())
	e.define(x, res)
	return nil
}

// noteImplements: concrete types known to implement the interface (e.g. *errors.errorString → error).
func (e *Enc) noteImplements(iface types.Type, pred string) {
	it, ok := iface.Underlying().(*types.Interface)
	if !ok {
		return
	}
	for full, id := range e.tr.tidNum {
		_ = full
		_ = id
	}
	_ = it
}

func (e *Enc) execSlice(x *ssa.Slice) error {
	v := e.val(x.X)
	switch u := x.X.Type().Underlying().(type) {
	case *types.Basic: // string
		ln := App(SInt, "str.len", v)
		lo, hi := IntLit(0), ln
		if x.Low != nil {
			lo = e.val(x.Low)
		}
		if x.High != nil {
			hi = e.val(x.High)
		}
		e.oblige("SAFE.slice", "", nil, And(App(SBool, "<=", IntLit(0), lo), App(SBool, "<=", lo, hi), App(SBool, "<=", hi, ln)),
			"slice bounds out of range", x.Pos())
		e.define(x, App(SString, "str.substr", v, lo, App(SInt, "-", hi, lo)))
		return nil
	case *types.Pointer: // *array -> slice
		arr := u.Elem().Underlying().(*types.Array)
		if x.Low != nil || x.High != nil {
			e.unsupported("partial slice of array")
		}
		lv := e.lvalOf(x.X)
		if lv.kind != lvPtr {
			e.unsupported("slice of non-heap array")
		}
		e.define(x, App(SSlice, "mkslice", lv.ptr, IntLit(arr.Len())))
		return nil
	case *types.Slice:
		if x.Low == nil && x.High == nil {
			e.define(x, v)
			return nil
		}
		if x.Low == nil || isZeroConst(x.Low) {
			hi := e.val(x.High)
			e.assumed["slice capacity is not modelled: s[:n] requires n <= len(s)"] = true
			e.oblige("SAFE.slice", "", nil, And(App(SBool, "<=", IntLit(0), hi), App(SBool, "<=", hi, App(SInt, "slen", v))),
				"slice bounds out of range", x.Pos())
			e.define(x, App(SSlice, "mkslice", App(SInt, "sref", v), hi))
			return nil
		}
		e.unsupported("slice with non-zero low bound")
	}
	e.unsupported("slice of %s", x.X.Type())
	return nil
}

func isZeroConst(v ssa.Value) bool {
	c, ok := v.(*ssa.Const)
	return ok && c.Value != nil && c.Value.ExactString() == "0"
}

// ---------------------------------------------------------------------------
// maps

func (e *Enc) mapHeap(mt *types.Map) string {
	return "M$" + e.tr.typeID(mt.Key()) + "$" + e.tr.typeID(mt.Elem())
}
func (e *Enc) mapHeapSort(mt *types.Map) string {
	return ArraySort(SInt, ArraySort(e.tr.sortOf(mt.Key()), e.tr.sortOf(mt.Elem())))
}
func (e *Enc) mapDomHeap(mt *types.Map) string {
	return "MD$" + e.tr.typeID(mt.Key()) + "$" + e.tr.typeID(mt.Elem())
}
func (e *Enc) mapDomSort(mt *types.Map) string {
	return ArraySort(SInt, ArraySort(e.tr.sortOf(mt.Key()), SBool))
}
func (e *Enc) rangeVisitedName(r *ssa.Range) string { return "L$visited_" + sanitize(r.Name()) }
func (e *Enc) rangeVisitedSort(r *ssa.Range) string {
	mt := r.X.Type().Underlying().(*types.Map)
	return ArraySort(e.tr.sortOf(mt.Key()), SBool)
}

func (e *Enc) execLookup(x *ssa.Lookup) error {
	switch u := x.X.Type().Underlying().(type) {
	case *types.Map:
		m := e.val(x.X)
		h := e.lookup(e.cur, e.mapHeap(u), e.mapHeapSort(u))
		d := e.lookup(e.cur, e.mapDomHeap(u), e.mapDomSort(u))
		k := e.val(x.Index)
		if types.IsInterface(u.Key()) {
			e.hashObligation(k, x.Pos(), "map key")
		}
		in := And(Not(Eq(m, IntLit(0))), Select(Select(d, m), k))
		v := Ite(in, Select(Select(h, m), k), e.tr.zeroOf(u.Elem()))
		if x.CommaOk {
			e.tuples[x] = []Term{v, in}
			e.vals[x] = IntLit(0)
		} else {
			e.define(x, v)
		}
		return nil
	}
	// string index
	e.checkStringIndex(e.val(x.X), e.val(x.Index), x.Pos())
	e.defineFresh(x)
	return nil
}

func (e *Enc) execNext(x *ssa.Next) error {
	r, _ := x.Iter.(*ssa.Range)
	ok := e.fresh("nextok", SBool)
	if r != nil {
		if mt, isMap := r.X.Type().Underlying().(*types.Map); isMap {
			m := e.val(r.X)
			h := e.lookup(e.cur, e.mapHeap(mt), e.mapHeapSort(mt))
			d := e.lookup(e.cur, e.mapDomHeap(mt), e.mapDomSort(mt))
			k := e.fresh("nextkey", e.tr.sortOf(mt.Key()))
			vn := e.rangeVisitedName(r)
			vis := e.lookup(e.cur, vn, e.rangeVisitedSort(r))
			dom := Select(d, m)
			// ok ==> k in dom, not visited
			e.sc.Assert(Implies(And(e.curGuard, ok), And(Not(Eq(m, IntLit(0))), Select(dom, k), Not(Select(vis, k)))))
			// !ok ==> every key of dom has been visited
			ks := e.tr.sortOf(mt.Key())
			e.sc.Assert(Implies(And(e.curGuard, Not(ok)),
				T(fmt.Sprintf("(forall ((kq %s)) (=> (select %s kq) (select %s kq)))", ks, Ite(Eq(m, IntLit(0)), T(fmt.Sprintf("((as const %s) false)", ArraySort(ks, SBool)), ArraySort(ks, SBool)), dom).S, vis.S), SBool)))
			e.set(e.cur, vn, Ite(ok, Store(vis, k, TTrue), vis))
			v := Select(Select(h, m), k)
			e.tuples[x] = []Term{ok, k, v}
			e.vals[x] = IntLit(0)
			return nil
		}
	}
	// string range: (ok, index, rune)
	e.abstracted["range over string"] = true
	e.tuples[x] = []Term{ok, e.fresh("ridx", SInt), e.fresh("rune", SInt)}
	e.vals[x] = IntLit(0)
	return nil
}

func (e *Enc) execSelect(x *ssa.Select) error {
	n := len(x.States)
	idx := e.fresh("selidx", SInt)
	lo := IntLit(0)
	if !x.Blocking {
		lo = IntLit(-1)
	}
	e.sc.Assert(Implies(e.curGuard, And(App(SBool, "<=", lo, idx), App(SBool, "<", idx, IntLit(int64(n))))))
	tup := []Term{idx, e.fresh("selok", SBool)}
	for _, st := range x.States {
		if st.Dir == types.RecvOnly {
			et := st.Chan.Type().Underlying().(*types.Chan).Elem()
			tup = append(tup, e.fresh("selrecv", e.tr.sortOf(et)))
		}
	}
	e.tuples[x] = tup
	e.vals[x] = IntLit(0)
	e.abstracted["select: nondeterministic choice among ready arms"] = true
	e.onSelect(x, idx)
	return nil
}

func (e *Enc) staticStoreNames(addr ssa.Value, names map[string]string) {
	switch x := addr.(type) {
	case *ssa.Alloc:
		if e.localCells[x] {
			names[e.localName(x)] = e.tr.sortOf(derefType(x.Type()))
			return
		}
		e.heapNamesOfType(derefType(x.Type()), names)
	case *ssa.FieldAddr:
		base := x.X
		root := rootAlloc(base)
		if root != nil && e.localCells[root] {
			names[e.localName(root)] = e.tr.sortOf(derefType(root.Type()))
			return
		}
		if ia := rootIndexAddr(x); ia != nil {
			e.indexAddrNames(ia, names)
			return
		}
		ct := derefType(base.Type())
		if _, ok := e.tr.isModuleStruct(ct); ok {
			ft := ct.Underlying().(*types.Struct).Field(x.Field).Type()
			if _, fmod := e.tr.isModuleStruct(ft); fmod {
				e.heapNamesOfType(ft, names)
			} else {
				names[heapFieldName(e.tr, ct, x.Field)] = ArraySort(SInt, e.tr.sortOf(ft))
			}
		}
	case *ssa.IndexAddr:
		root := rootAlloc(x.X)
		if root != nil && e.localCells[root] {
			names[e.localName(root)] = e.tr.sortOf(derefType(root.Type()))
			return
		}
		e.indexAddrNames(x, names)
	default:
		e.heapNamesOfType(derefType(addr.Type()), names)
	}
}

func (e *Enc) indexAddrNames(x *ssa.IndexAddr, names map[string]string) {
	var et types.Type
	switch u := x.X.Type().Underlying().(type) {
	case *types.Slice:
		et = u.Elem()
	case *types.Pointer:
		et = u.Elem().Underlying().(*types.Array).Elem()
	}
	names["E$"+e.tr.typeID(et)] = ArraySort(SInt, ArraySort(SInt, e.tr.sortOf(et)))
}

// assumeGlobalInvs: invariants over package-level variables (proved of the package's init and of the
// absence of other writers) hold in every state of every function of the package.
func (e *Enc) assumeGlobalInvs(st *State) error {
	if e.fn == nil || e.fn.Pkg == nil || e.isInit() {
		return nil
	}
	for _, cl := range e.prog.cs.GlobalInvs[e.fn.Pkg.Pkg.Path()] {
		se := &specEnv{e: e, old: st, cur: st, binds: map[string]specVal{}, noLocal: true, pkg: e.fn.Pkg.Pkg}
		t, err := se.evalBool(cl.Expr)
		if err != nil {
			return fmt.Errorf("%s:%d: globalinv: %v", cl.File, cl.Line, err)
		}
		e.sc.AssertNamed(t, "global invariant "+cl.Text)
	}
	return nil
}

func (e *Enc) isInit() bool { return e.fn != nil && e.fn.Name() == "init" && e.fn.Synthetic != "" }

func allAllocEdges(phi *ssa.Phi) bool {
	for _, ed := range phi.Edges {
		if _, ok := ed.(*ssa.Alloc); !ok {
			return false
		}
	}
	return len(phi.Edges) > 0
}

// intWitness: t is syntactically (to_real k) for an integer term k, or an integer-valued literal.
func intWitness(t Term) (Term, bool) {
	if strings.HasPrefix(t.S, "(to_real ") && strings.HasSuffix(t.S, ")") {
		inner := t.S[len("(to_real ") : len(t.S)-1]
		if readSexp(inner) == inner {
			return Term{inner, SInt}, true
		}
	}
	if strings.HasSuffix(t.S, ".0") && isDigits(strings.TrimSuffix(t.S, ".0")) {
		return Term{strings.TrimSuffix(t.S, ".0"), SInt}, true
	}
	return Term{}, false
}

func isSmallLit(t Term) bool {
	s := strings.TrimSuffix(strings.TrimPrefix(t.S, "(- "), ")")
	return isDigits(s) && len(s) <= 4
}

// ---------------------------------------------------------------------------
// Non-finite taint: a float quotient whose divisor may be zero is an arbitrary value in the model.
// It may be returned, but wherever it is compared, converted to an integer, stored or passed to a
// call, an FP.finite obligation demands that the divisor was in fact non-zero.

func isNonZeroRealLit(t Term) bool {
	s := strings.TrimSpace(t.S)
	if s == "" || s[0] == '(' && !strings.HasPrefix(s, "(- ") && !strings.HasPrefix(s, "(/ ") {
		return false
	}
	for _, c := range s {
		if !(c >= '0' && c <= '9' || c == '.' || c == '(' || c == ')' || c == '-' || c == '/' || c == ' ') {
			return false
		}
	}
	return strings.Trim(s, "0.()-/ ") != ""
}

func (e *Enc) addTaint(v Term, cond Term) {
	if e.nfTaint == nil {
		e.nfTaint = map[string]Term{}
	}
	if old, ok := e.nfTaint[v.S]; ok {
		cond = Or(old, cond)
	}
	e.nfTaint[v.S] = cond
}

func (e *Enc) taintOf(ts ...Term) (Term, bool) {
	if len(e.nfTaint) == 0 {
		return TFalse, false
	}
	var conds []Term
	seen := map[string]bool{}
	for _, t := range ts {
		if t.Sort != SReal {
			continue
		}
		for _, m := range symRe.FindAllString(t.S, -1) {
			if c, ok := e.nfTaint[m]; ok && !seen[m] {
				seen[m] = true
				conds = append(conds, c)
			}
		}
	}
	if len(conds) == 0 {
		return TFalse, false
	}
	return Or(conds...), true
}

func (e *Enc) finiteUse(at ssa.Instruction, how string, ts ...Term) {
	if c, ok := e.taintOf(ts...); ok {
		pos := token.NoPos
		if at != nil {
			pos = at.Pos()
		}
		e.oblige("FP.finite", "", nil, Not(c), "a float that is "+how+" here must be finite: the divisor of the division it comes from must be non-zero", pos)
	}
}

// writeOnceStore: the single store to a captured variable's cell when the cell is write-once (see writeOnceCell).
func (e *Enc) writeOnceStore(a *ssa.Alloc) *ssa.Store {
	if e.woCache == nil {
		e.woCache = map[*ssa.Alloc]*ssa.Store{}
	}
	if st, ok := e.woCache[a]; ok {
		return st
	}
	var st *ssa.Store
	if writeOnceCell(a, 0) && a.Referrers() != nil {
		for _, r := range *a.Referrers() {
			if s, ok := r.(*ssa.Store); ok && s.Addr == ssa.Value(a) {
				st = s
			}
		}
	}
	e.woCache[a] = st
	return st
}
