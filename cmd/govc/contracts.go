package main

// Contract files: `//@` comment lines in zz_contracts_verif.go files (build tag verif), one per
// package. Line oriented; see DESIGN.md §2.3 for the notation.

import (
	"fmt"
	"os"
	"path/filepath"
	"regexp"
	"strconv"
	"strings"
)

type Clause struct {
	Kind  string // requires, ensures, onpanic, invariant, assert, lemma
	Label string
	Props []string // property ids this clause serves (empty = all props of the function)
	Text  string
	Expr  SExpr
	File  string
	Line  int
	Loop  int // for invariants
}

type GhostStmt struct {
	Text string
	// parsed
	Kind   string // assign, assert, assume
	Target string
	Index  SExpr // for map-typed ghost: target[index] = value
	Value  SExpr
	Label  string
	Props  []string
	Line   int
}

type GhostHook struct {
	When    string // before | after
	Callee  string // substring/pattern of callee name
	Ordinal int    // -1 = every matching call
	Stmts   []GhostStmt
	Line    int
}

type ModLoc struct {
	Text string
	Expr SExpr // x.f  or x.f[*] ; nil for "all"
}

type DynCall struct {
	Name    string  // name of the called value (param/freevar/field name)
	Spec    string  // fnspec name
	Args    []SExpr // optional explicit argument expressions (evaluated in the caller), replacing the call's own arguments
	HasArgs bool
}

type FuncContract struct {
	Target       string // e.g. (*IterationDurations).Add, withRandomDistribution$1
	PkgPath      string
	Props        []string
	Requires     []Clause
	Ensures      []Clause
	OnPanic      []Clause // must hold when the function exits by panic
	Invs         []Clause // closure-state invariants (over free variables): assumed at entry, proved at exit and at creation
	Modifies     []ModLoc
	ModAll       bool
	ModExcept    []string // with ModAll: ghost names / pkg:<name> patterns that are NOT modified
	ModNone      bool
	NoPanic      bool
	MayPanic     bool
	Recovers     bool // calls recover() itself; as a deferred call it clears the panic
	PanicsAlways bool
	LoopInv      map[int][]Clause
	DynCalls     []DynCall
	Hooks        []GhostHook
	Sweep        bool         // generate SAFE.* obligations
	Trusted      bool         // contract assumed, body not verified (must be reported)
	Unreach      map[int]bool // blocks whitelisted as unreachable for COVER
	ArithNote    string
	Implements   []string // fnspec names this function is checked to refine
	Notes        []string
	Asserts      []AssertHook
	File         string
	Line         int
	Params       []string // optional explicit parameter names for fnspecs
	ParamTypes   []string
	Results      []string
	ResultTypes  []string
	IsFnSpec     bool
	Name         string // fnspec name
	ThreadRoot   bool
	AssumeRanges bool
	FPMonotone   bool
	FPInexact    bool
	Bounded      []BoundedCheck
	MayPanicArb  bool     // maypanic only via methods of the `arbitrary` parameters
	Arbitrary    []string // parameters that may hold an arbitrary user value (see isArbitrary)
	Spawns       []string // callees this function may start goroutines on although they are not under contract
	FPAbstract   bool      // floats are unconstrained values (NaN/Inf included); only float-independent facts are provable
	Contended    bool      // runs concurrently with writers of the mutexes it read-locks
	Variant      string    // "" or the name of the verification variant this contract belongs to
	Interference []DynCall // environment steps (fnspecs) that may happen between any two steps of this function
}

type AssertHook struct {
	When    string
	Callee  string
	Ordinal int
	Clause  Clause
}

type ClosesOnly struct {
	PkgPath string
	Type    string
	Field   string
	Props   []string
	File    string
	Line    int
}

type Pred struct {
	Name    string
	Params  []string
	Types   []string
	Body    SExpr
	Text    string
	PkgPath string
}

// BoundedCheck: a bounded run of the real code registered on a function under contract (driver: a Go test in
// /verif/replay/bounded/<driver>_test.go.txt injected with go test -overlay).
type BoundedCheck struct {
	Driver string
	Text   string
	Label  string
	Props  []string
}

type GhostVar struct {
	Name    string
	Type    string // int, bool, real, map[int]int, map[int]bool
	PkgPath string
}

type Lemma struct {
	Name    string
	Props   []string
	Vars    []SQVar
	Hyps    []Clause
	Goal    Clause
	PkgPath string
	File    string
	Line    int
}

type ContractSet struct {
	Funcs      map[string]*FuncContract // key pkgpath + "." + target
	FnSpecs    map[string]*FuncContract // by name (global)
	Preds      map[string]*Pred
	Ghosts     map[string]*GhostVar
	Lemmas     []*Lemma
	GlobalInvs map[string][]Clause // per package path: invariants over package-level variables, proved of init()
	Frozen     []ClosesOnly        // fields written only during construction of their object (checked module-wide): calls cannot change them
	ClosesOnly []ClosesOnly        // channel-typed fields on which nothing is ever sent (checked): a completed receive means closed
	Files      []string
	Scan       map[string]int // counts of assume/trusted/etc tokens
}

func newContractSet() *ContractSet {
	return &ContractSet{
		Funcs:      map[string]*FuncContract{},
		FnSpecs:    map[string]*FuncContract{},
		Preds:      map[string]*Pred{},
		Ghosts:     map[string]*GhostVar{},
		GlobalInvs: map[string][]Clause{},
		Scan:       map[string]int{},
	}
}

var (
	labelRe = regexp.MustCompile(`^\[([A-Za-z0-9_.\-]+)\]\s*`)
	propsRe = regexp.MustCompile(`^\{([A-Z0-9, ]+)\}\s*`)
)

// stripTags removes leading {C01,C02} and [label] tags (in either order).
func stripTags(s string) (label string, props []string, rest string) {
	rest = strings.TrimSpace(s)
	for i := 0; i < 2; i++ {
		if m := labelRe.FindStringSubmatch(rest); m != nil {
			label = m[1]
			rest = rest[len(m[0]):]
		}
		if m := propsRe.FindStringSubmatch(rest); m != nil {
			for _, p := range strings.Split(m[1], ",") {
				props = append(props, strings.TrimSpace(p))
			}
			rest = rest[len(m[0]):]
		}
	}
	return
}

type rawLine struct {
	text   string
	indent int
	line   int
}

func readContractLines(path string) ([]rawLine, string, error) {
	data, err := os.ReadFile(path)
	if err != nil {
		return nil, "", err
	}
	var out []rawLine
	pkg := ""
	for i, l := range strings.Split(string(data), "\n") {
		tl := strings.TrimSpace(l)
		if strings.HasPrefix(tl, "package ") {
			pkg = strings.TrimSpace(tl[len("package "):])
		}
		if !strings.HasPrefix(tl, "//@") {
			continue
		}
		body := tl[3:]
		// strip trailing comment
		if k := strings.Index(body, " // "); k >= 0 {
			body = body[:k]
		}
		if strings.TrimSpace(body) == "" {
			continue
		}
		ind := len(body) - len(strings.TrimLeft(body, " \t"))
		out = append(out, rawLine{strings.TrimSpace(body), ind, i + 1})
	}
	return out, pkg, nil
}

var topKeywords = map[string]bool{"pred": true, "ghost": true, "fnspec": true, "func": true, "lemma": true, "globalinv": true, "closesonly": true, "frozen": true}
var clauseKeywords = map[string]bool{
	"props": true, "requires": true, "ensures": true, "onpanic": true, "modifies": true, "nopanic": true,
	"maypanic": true, "recovers": true, "loop": true, "dyncall": true, "ghost": true, "assert": true,
	"sweep": true, "trusted": true, "unreachable": true, "note": true, "implements": true, "arith": true,
	"panics": true, "inv": true, "hyp": true, "goal": true, "vars": true, "thread-root": true, "assume-ranges": true, "fp-monotone": true, "fp-inexact": true, "fp-abstract": true, "contended": true, "interference": true, "bounded": true, "spawns": true, "arbitrary": true,
}

func firstWord(s string) (string, string) {
	s = strings.TrimSpace(s)
	i := strings.IndexAny(s, " \t")
	if i < 0 {
		return s, ""
	}
	return s[:i], strings.TrimSpace(s[i+1:])
}

// LoadContractFile parses one contract file for package pkgPath.
func (cs *ContractSet) LoadContractFile(path, pkgPath string) error {
	lines, _, err := readContractLines(path)
	if err != nil {
		return err
	}
	cs.Files = append(cs.Files, path)
	// group into items: a top-level line (indent <= 1) starts an item
	type item struct {
		head    rawLine
		clauses []rawLine // each clause with continuation lines joined
	}
	var items []*item
	var cur *item
	for _, l := range lines {
		w, _ := firstWord(l.text)
		if l.indent <= 1 && topKeywords[w] {
			cur = &item{head: l}
			items = append(items, cur)
			continue
		}
		if cur == nil {
			return fmt.Errorf("%s:%d: clause outside of an item: %s", path, l.line, l.text)
		}
		if l.indent <= 1 {
			// continuation of the head (e.g. long pred body)
			cur.head.text += " " + l.text
			continue
		}
		if clauseKeywords[w] && (len(cur.clauses) == 0 || l.indent <= cur.clauses[0].indent) {
			cur.clauses = append(cur.clauses, l)
		} else if len(cur.clauses) > 0 {
			cur.clauses[len(cur.clauses)-1].text += " " + l.text
		} else {
			cur.head.text += " " + l.text
		}
	}
	for _, it := range items {
		w, rest := firstWord(it.head.text)
		switch w {
		case "pred":
			if err := cs.parsePred(rest, pkgPath, path, it.head.line); err != nil {
				return err
			}
		case "closesonly":
			_, props, txt := stripTags(rest)
			parts := strings.SplitN(strings.TrimSpace(txt), ".", 2)
			if len(parts) != 2 {
				return fmt.Errorf("%s:%d: closesonly Type.field", path, it.head.line)
			}
			cs.ClosesOnly = append(cs.ClosesOnly, ClosesOnly{PkgPath: pkgPath, Type: parts[0], Field: parts[1], Props: props, File: path, Line: it.head.line})
		case "frozen":
			// frozen {Cxx} Type.field [Type.field ...]: fields assigned only while their object is being built
			_, props, txt := stripTags(rest)
			for _, tf := range strings.Fields(txt) {
				parts := strings.SplitN(tf, ".", 2)
				if len(parts) != 2 {
					return fmt.Errorf("%s:%d: frozen Type.field ...", path, it.head.line)
				}
				cs.Frozen = append(cs.Frozen, ClosesOnly{PkgPath: pkgPath, Type: parts[0], Field: parts[1], Props: props, File: path, Line: it.head.line})
			}
		case "globalinv":
			label, props, txt := stripTags(rest)
			e, err := parseSpecExpr(txt)
			if err != nil {
				return fmt.Errorf("%s:%d: %v", path, it.head.line, err)
			}
			cs.GlobalInvs[pkgPath] = append(cs.GlobalInvs[pkgPath], Clause{Kind: "globalinv", Label: label, Props: props, Text: txt, Expr: e, File: path, Line: it.head.line})
		case "ghost":
			// ghost var name type
			w2, r2 := firstWord(rest)
			if w2 != "var" {
				return fmt.Errorf("%s:%d: expected 'ghost var'", path, it.head.line)
			}
			name, ty := firstWord(r2)
			cs.Ghosts[name] = &GhostVar{Name: name, Type: strings.TrimSpace(ty), PkgPath: pkgPath}
		case "lemma":
			lm := &Lemma{Name: strings.TrimSpace(rest), PkgPath: pkgPath, File: path, Line: it.head.line}
			for _, c := range it.clauses {
				kw, body := firstWord(c.text)
				switch kw {
				case "props":
					lm.Props = strings.Fields(strings.ReplaceAll(body, ",", " "))
				case "vars":
					for _, v := range strings.Split(body, ",") {
						f := strings.Fields(v)
						if len(f) != 2 {
							return fmt.Errorf("%s:%d: bad lemma var %q", path, c.line, v)
						}
						lm.Vars = append(lm.Vars, SQVar{f[0], f[1]})
					}
				case "hyp", "goal":
					label, props, txt := stripTags(body)
					e, err := parseSpecExpr(txt)
					if err != nil {
						return fmt.Errorf("%s:%d: %v", path, c.line, err)
					}
					cl := Clause{Kind: kw, Label: label, Props: props, Text: txt, Expr: e, File: path, Line: c.line}
					if kw == "hyp" {
						lm.Hyps = append(lm.Hyps, cl)
					} else {
						lm.Goal = cl
					}
				default:
					return fmt.Errorf("%s:%d: unknown lemma clause %q", path, c.line, kw)
				}
			}
			cs.Lemmas = append(cs.Lemmas, lm)
		case "func", "fnspec":
			fc := &FuncContract{PkgPath: pkgPath, File: path, Line: it.head.line, LoopInv: map[int][]Clause{}, Unreach: map[int]bool{}}
			if w == "fnspec" {
				fc.IsFnSpec = true
				if err := parseFnSpecHead(fc, rest); err != nil {
					return fmt.Errorf("%s:%d: %v", path, it.head.line, err)
				}
			} else {
				fc.Target = strings.TrimSpace(rest)
				// "func X @variant": a second contract of the same function, verified in its own pass
				// (e.g. under interference); inside that pass callees are used by their contract of the
				// same variant only
				if k := strings.Index(fc.Target, " @"); k > 0 {
					fc.Variant = strings.TrimSpace(fc.Target[k+2:])
					fc.Target = strings.TrimSpace(fc.Target[:k])
				}
			}
			for _, c := range it.clauses {
				if err := cs.parseClause(fc, c, path); err != nil {
					return err
				}
			}
			if fc.IsFnSpec {
				cs.FnSpecs[fc.Name] = fc
			} else {
				key := pkgPath + "." + fc.Target
				if fc.Variant != "" {
					key += "@" + fc.Variant
				}
				if _, dup := cs.Funcs[key]; dup {
					return fmt.Errorf("%s:%d: duplicate contract for %s", path, it.head.line, key)
				}
				cs.Funcs[key] = fc
			}
		}
	}
	// mechanical scan
	data, _ := os.ReadFile(path)
	for _, tok := range []string{"assume", "trusted", "admit", "arith", "assume-ranges"} {
		cs.Scan[tok] += strings.Count(string(data), tok)
	}
	return nil
}

// fnspec name(p1 T1, p2 T2) (r1 T1)
func parseFnSpecHead(fc *FuncContract, s string) error {
	i := strings.Index(s, "(")
	if i < 0 {
		return fmt.Errorf("bad fnspec head %q", s)
	}
	fc.Name = strings.TrimSpace(s[:i])
	j := matchParen(s, i)
	if j < 0 {
		return fmt.Errorf("bad fnspec head %q", s)
	}
	ps, ts, err := splitParams(s[i+1 : j])
	if err != nil {
		return err
	}
	fc.Params, fc.ParamTypes = ps, ts
	rest := strings.TrimSpace(s[j+1:])
	if strings.HasPrefix(rest, "(") {
		k := matchParen(rest, 0)
		rs, rts, err := splitParams(rest[1:k])
		if err != nil {
			return err
		}
		fc.Results, fc.ResultTypes = rs, rts
	}
	return nil
}

func matchParen(s string, open int) int {
	depth := 0
	for i := open; i < len(s); i++ {
		switch s[i] {
		case '(':
			depth++
		case ')':
			depth--
			if depth == 0 {
				return i
			}
		}
	}
	return -1
}

func splitParams(s string) ([]string, []string, error) {
	var names, types []string
	s = strings.TrimSpace(s)
	if s == "" {
		return nil, nil, nil
	}
	for _, p := range strings.Split(s, ",") {
		name, ty := firstWord(p)
		if ty == "" {
			return nil, nil, fmt.Errorf("parameter %q needs a name and a type", p)
		}
		names = append(names, name)
		types = append(types, ty)
	}
	return names, types, nil
}

func (cs *ContractSet) parsePred(rest, pkgPath, path string, line int) error {
	// name(params) = body
	i := strings.Index(rest, "(")
	if i < 0 {
		return fmt.Errorf("%s:%d: bad pred", path, line)
	}
	j := matchParen(rest, i)
	eq := strings.Index(rest[j:], "=")
	if j < 0 || eq < 0 {
		return fmt.Errorf("%s:%d: bad pred", path, line)
	}
	names, types, err := splitParams(rest[i+1 : j])
	if err != nil {
		return fmt.Errorf("%s:%d: %v", path, line, err)
	}
	bodyTxt := strings.TrimSpace(rest[j+eq+1:])
	body, err := parseSpecExpr(bodyTxt)
	if err != nil {
		return fmt.Errorf("%s:%d: %v", path, line, err)
	}
	name := strings.TrimSpace(rest[:i])
	cs.Preds[name] = &Pred{Name: name, Params: names, Types: types, Body: body, Text: bodyTxt, PkgPath: pkgPath}
	return nil
}

func (cs *ContractSet) parseClause(fc *FuncContract, c rawLine, path string) error {
	kw, body := firstWord(c.text)
	mk := func(kind, txt string) (Clause, error) {
		label, props, t := stripTags(txt)
		e, err := parseSpecExpr(t)
		if err != nil {
			return Clause{}, fmt.Errorf("%s:%d: %v", path, c.line, err)
		}
		return Clause{Kind: kind, Label: label, Props: props, Text: t, Expr: e, File: path, Line: c.line}, nil
	}
	switch kw {
	case "props":
		fc.Props = strings.Fields(strings.ReplaceAll(body, ",", " "))
	case "requires":
		cl, err := mk("requires", body)
		if err != nil {
			return err
		}
		fc.Requires = append(fc.Requires, cl)
	case "ensures":
		cl, err := mk("ensures", body)
		if err != nil {
			return err
		}
		fc.Ensures = append(fc.Ensures, cl)
	case "inv":
		cl, err := mk("inv", body)
		if err != nil {
			return err
		}
		fc.Invs = append(fc.Invs, cl)
	case "onpanic":
		cl, err := mk("onpanic", body)
		if err != nil {
			return err
		}
		fc.OnPanic = append(fc.OnPanic, cl)
	case "modifies":
		b := strings.TrimSpace(body)
		if b == "all" {
			fc.ModAll = true
			break
		}
		if strings.HasPrefix(b, "allbut(") && strings.HasSuffix(b, ")") {
			// everything may change except the listed ghost variables and the fields of struct types
			// declared in the listed packages (pkg:<name>)
			fc.ModAll = true
			for _, x := range splitTop(b[len("allbut("):len(b)-1], ',') {
				fc.ModExcept = append(fc.ModExcept, strings.TrimSpace(x))
			}
			break
		}
		if b == "nothing" {
			fc.ModNone = true
			break
		}
		for _, m := range splitTop(b, ',') {
			m = strings.TrimSpace(m)
			e, err := parseSpecExpr(m)
			if err != nil {
				return fmt.Errorf("%s:%d: %v", path, c.line, err)
			}
			fc.Modifies = append(fc.Modifies, ModLoc{Text: m, Expr: e})
		}
	case "nopanic":
		fc.NoPanic = true
	case "maypanic":
		fc.MayPanic = true
		// `maypanic arbitrary`: only through the methods of the parameters declared `arbitrary`; a caller that passes
		// ordinary values there sees no exceptional edge
		if strings.TrimSpace(body) == "arbitrary" {
			fc.MayPanicArb = true
		}
	case "panics":
		fc.PanicsAlways = true
		fc.MayPanic = true
	case "recovers":
		fc.Recovers = true
	case "sweep":
		fc.Sweep = true
	case "trusted":
		fc.Trusted = true
		fc.Notes = append(fc.Notes, "trusted: "+body)
	case "thread-root":
		fc.ThreadRoot = true
	case "assume-ranges":
		fc.AssumeRanges = true
	case "fp-monotone":
		fc.FPMonotone = true
	case "fp-inexact":
		fc.FPInexact = true
	case "fp-abstract":
		fc.FPAbstract = true
	case "contended":
		// may run while another thread write-locks the same mutexes: recursive read locking can then deadlock
		fc.Contended = true
	case "bounded":
		// bounded <driver> : <what is enumerated and the bound> — a bounded check of the real function stands in for a
		// clause the verifier cannot decide; it is run and reported separately and never counted as proved
		label, props, t := stripTags(body)
		i := strings.Index(t, ":")
		if i < 0 {
			return fmt.Errorf("%s:%d: bounded: expected '<driver> : <description>'", path, c.line)
		}
		fc.Bounded = append(fc.Bounded, BoundedCheck{Driver: strings.TrimSpace(t[:i]), Text: strings.TrimSpace(t[i+1:]), Label: label, Props: props})
	case "spawns":
		fc.Spawns = append(fc.Spawns, strings.TrimSpace(body))
	case "arbitrary":
		// arbitrary <param>: the parameter may hold an arbitrary value supplied by user code (a recovered panic value):
		// calling a method of it runs user code, which may panic
		fc.Arbitrary = append(fc.Arbitrary, strings.Fields(strings.ReplaceAll(body, ",", " "))...)
	case "note":
		fc.Notes = append(fc.Notes, body)
	case "arith":
		fc.ArithNote = body
	case "implements":
		fc.Implements = append(fc.Implements, strings.Fields(strings.ReplaceAll(body, ",", " "))...)
	case "unreachable":
		for _, f := range strings.Fields(strings.ReplaceAll(body, ",", " ")) {
			n, err := strconv.Atoi(f)
			if err != nil {
				return fmt.Errorf("%s:%d: bad block number %q", path, c.line, f)
			}
			fc.Unreach[n] = true
		}
	case "loop":
		// loop <k> invariant <expr>
		ks, r := firstWord(body)
		k, err := strconv.Atoi(strings.TrimPrefix(ks, "#"))
		if err != nil {
			return fmt.Errorf("%s:%d: bad loop ordinal %q", path, c.line, ks)
		}
		w, r2 := firstWord(r)
		if w != "invariant" {
			return fmt.Errorf("%s:%d: expected 'invariant'", path, c.line)
		}
		cl, err := mk("invariant", r2)
		if err != nil {
			return err
		}
		cl.Loop = k
		fc.LoopInv[k] = append(fc.LoopInv[k], cl)
	case "dyncall":
		parts := strings.SplitN(body, ":", 2)
		if len(parts) != 2 {
			return fmt.Errorf("%s:%d: dyncall <name> : <fnspec>", path, c.line)
		}
		dc := DynCall{Name: strings.TrimSpace(parts[0]), Spec: strings.TrimSpace(parts[1])}
		if k := lastOpenParen(dc.Spec); k >= 0 && strings.HasSuffix(dc.Spec, ")") && !strings.HasSuffix(dc.Spec[:k], ".") && k > 0 {
			argTxt := dc.Spec[k+1 : len(dc.Spec)-1]
			dc.Spec = strings.TrimSpace(dc.Spec[:k])
			dc.HasArgs = true
			for _, a := range splitTop(argTxt, ',') {
				if strings.TrimSpace(a) == "" {
					continue
				}
				ex, err := parseSpecExpr(strings.TrimSpace(a))
				if err != nil {
					return fmt.Errorf("%s:%d: %v", path, c.line, err)
				}
				dc.Args = append(dc.Args, ex)
			}
		}
		fc.DynCalls = append(fc.DynCalls, dc)
	case "interference":
		// interference <fnspec>(<args>): between any two steps of this function other threads may perform any
		// number of steps described by the fnspec (a reflexive-transitive environment relation)
		spec := strings.TrimSpace(body)
		k := lastOpenParen(spec)
		if k <= 0 || !strings.HasSuffix(spec, ")") {
			return fmt.Errorf("%s:%d: interference <fnspec>(<args>)", path, c.line)
		}
		dc := DynCall{Name: "env", Spec: strings.TrimSpace(spec[:k]), HasArgs: true}
		for _, a := range splitTop(spec[k+1:len(spec)-1], ',') {
			if strings.TrimSpace(a) == "" {
				continue
			}
			ex, err := parseSpecExpr(strings.TrimSpace(a))
			if err != nil {
				return fmt.Errorf("%s:%d: %v", path, c.line, err)
			}
			dc.Args = append(dc.Args, ex)
		}
		fc.Interference = append(fc.Interference, dc)
	case "ghost", "assert":
		// ghost before|after call <callee> [#k] : stmt ; stmt
		// assert before|after call <callee> [#k] : expr
		when, r := firstWord(body)
		if kw == "ghost" && when == "at" {
			// ghost at exit : stmts   (executed at every normal return, `result` bound)
			w2, r2 := firstWord(r)
			if (w2 != "exit" && w2 != "entry") || !strings.HasPrefix(strings.TrimSpace(r2), ":") {
				return fmt.Errorf("%s:%d: expected 'ghost at exit|entry : stmts'", path, c.line)
			}
			hook := GhostHook{When: w2, Line: c.line}
			for _, st := range splitTop(strings.TrimSpace(strings.TrimSpace(r2)[1:]), ';') {
				st = strings.TrimSpace(st)
				if st == "" {
					continue
				}
				gs, err := parseGhostStmt(st, c.line)
				if err != nil {
					return fmt.Errorf("%s:%d: %v", path, c.line, err)
				}
				hook.Stmts = append(hook.Stmts, gs)
			}
			fc.Hooks = append(fc.Hooks, hook)
			break
		}
		if when != "before" && when != "after" && when != "onpanic" {
			return fmt.Errorf("%s:%d: expected before/after/onpanic", path, c.line)
		}
		w, r := firstWord(r)
		if w != "call" {
			return fmt.Errorf("%s:%d: expected 'call'", path, c.line)
		}
		colon := strings.Index(r, " : ")
		if colon < 0 {
			return fmt.Errorf("%s:%d: expected ' : ' before statements", path, c.line)
		}
		site := strings.TrimSpace(r[:colon])
		stmts := strings.TrimSpace(r[colon+3:])
		callee := site
		ord := -1
		if k := strings.LastIndex(site, "#"); k >= 0 {
			n, err := strconv.Atoi(strings.TrimSpace(site[k+1:]))
			if err != nil {
				return fmt.Errorf("%s:%d: bad ordinal", path, c.line)
			}
			ord = n
			callee = strings.TrimSpace(site[:k])
		}
		if kw == "assert" {
			cl, err := mk("assert", stmts)
			if err != nil {
				return err
			}
			fc.Asserts = append(fc.Asserts, AssertHook{when, callee, ord, cl})
			break
		}
		hook := GhostHook{When: when, Callee: callee, Ordinal: ord, Line: c.line}
		for _, st := range splitTop(stmts, ';') {
			st = strings.TrimSpace(st)
			if st == "" {
				continue
			}
			gs, err := parseGhostStmt(st, c.line)
			if err != nil {
				return fmt.Errorf("%s:%d: %v", path, c.line, err)
			}
			hook.Stmts = append(hook.Stmts, gs)
		}
		fc.Hooks = append(fc.Hooks, hook)
	default:
		return fmt.Errorf("%s:%d: unknown clause %q", path, c.line, kw)
	}
	return nil
}

func parseGhostStmt(st string, line int) (GhostStmt, error) {
	gs := GhostStmt{Text: st, Line: line}
	if strings.HasPrefix(st, "rewrite ") {
		// rewrite <local> = <expr>: prove local == expr, then use expr as the local's term from here on
		label, props, t := stripTags(st[len("rewrite "):])
		eq := indexTopAssign(t)
		if eq < 0 {
			return gs, fmt.Errorf("bad rewrite statement %q", st)
		}
		v, err := parseSpecExpr(strings.TrimSpace(t[eq+1:]))
		if err != nil {
			return gs, err
		}
		gs.Kind, gs.Target, gs.Value, gs.Label, gs.Props, gs.Text = "rewrite", strings.TrimSpace(t[:eq]), v, label, props, t
		return gs, nil
	}
	if strings.HasPrefix(st, "assume ") {
		_, _, t := stripTags(st[len("assume "):])
		e, err := parseSpecExpr(t)
		if err != nil {
			return gs, err
		}
		gs.Kind, gs.Value, gs.Text = "assume", e, t
		return gs, nil
	}
	if strings.HasPrefix(st, "assert ") {
		label, props, t := stripTags(st[len("assert "):])
		e, err := parseSpecExpr(t)
		if err != nil {
			return gs, err
		}
		gs.Kind, gs.Value, gs.Label, gs.Props, gs.Text = "assert", e, label, props, t
		return gs, nil
	}
	// target = expr | target[idx] = expr
	eq := indexTopAssign(st)
	if eq < 0 {
		return gs, fmt.Errorf("bad ghost statement %q", st)
	}
	lhs := strings.TrimSpace(st[:eq])
	rhs := strings.TrimSpace(st[eq+1:])
	v, err := parseSpecExpr(rhs)
	if err != nil {
		return gs, err
	}
	gs.Kind, gs.Value = "assign", v
	if k := strings.Index(lhs, "["); k >= 0 {
		gs.Target = strings.TrimSpace(lhs[:k])
		idx, err := parseSpecExpr(lhs[k+1 : len(lhs)-1])
		if err != nil {
			return gs, err
		}
		gs.Index = idx
	} else {
		gs.Target = lhs
	}
	return gs, nil
}

// indexTopAssign finds a single '=' that is not part of ==, <=, >=, !=, ==>.
func indexTopAssign(s string) int {
	for i := 0; i < len(s); i++ {
		if s[i] != '=' {
			continue
		}
		if i+1 < len(s) && (s[i+1] == '=') {
			i++
			if i+1 < len(s) && s[i+1] == '>' {
				i++
			}
			continue
		}
		if i > 0 && (s[i-1] == '<' || s[i-1] == '>' || s[i-1] == '!' || s[i-1] == '=') {
			continue
		}
		return i
	}
	return -1
}

func splitTop(s string, sep byte) []string {
	var out []string
	depth := 0
	start := 0
	for i := 0; i < len(s); i++ {
		switch s[i] {
		case '(', '[':
			depth++
		case ')', ']':
			depth--
		default:
			if s[i] == sep && depth == 0 {
				out = append(out, s[start:i])
				start = i + 1
			}
		}
	}
	out = append(out, s[start:])
	return out
}

// contractFileFor returns the contract file to use for a package directory: the one in the
// repository if present, otherwise the mirror copy under /verif/contracts/mirror.
func contractFileFor(repoDir, relPkgDir, mirrorRoot string, preferMirror bool) (string, string) {
	inRepo := filepath.Join(repoDir, relPkgDir, "zz_contracts_verif.go")
	inMirror := filepath.Join(mirrorRoot, relPkgDir, "zz_contracts_verif.go")
	_, errRepo := os.Stat(inRepo)
	_, errMirror := os.Stat(inMirror)
	if preferMirror && errMirror == nil {
		return inMirror, "mirror"
	}
	if errRepo == nil {
		return inRepo, "repo"
	}
	if errMirror == nil {
		return inMirror, "mirror"
	}
	return "", ""
}

// lastOpenParen returns the index of the parenthesis matching the final ')' of s.
func lastOpenParen(s string) int {
	if !strings.HasSuffix(s, ")") {
		return -1
	}
	depth := 0
	for i := len(s) - 1; i >= 0; i-- {
		switch s[i] {
		case ')':
			depth++
		case '(':
			depth--
			if depth == 0 {
				return i
			}
		}
	}
	return -1
}

// modifiesAll: the contract allows the function to change anything (explicit `modifies all`, or no
// modifies clause at all: then nothing is promised and nothing is frame-checked).
func (fc *FuncContract) modifiesAll() bool {
	return fc.ModAll || (len(fc.Modifies) == 0 && !fc.ModNone)
}
