package main

import (
	"context"
	"encoding/json"
	"flag"
	"fmt"
	"os"
	"path/filepath"
	"sort"
	"strconv"
	"strings"
	"sync"
	"time"
)

type options struct {
	tier       string
	repo       string
	verif      string
	mirror     bool
	verbose    bool
	timeout    int
	seed       int
	dumpDir    string
	noReplay   bool
	noBounded  bool
	noEvidence bool
	only       string
}

func main() {
	if len(os.Args) < 2 {
		usage()
	}
	cmd := os.Args[1]
	fs := flag.NewFlagSet(cmd, flag.ExitOnError)
	var o options
	fs.StringVar(&o.tier, "tier", envOr("VERIF_TIER", "quick"), "quick | thorough")
	fs.StringVar(&o.repo, "repo", "/repo", "repository under verification")
	fs.StringVar(&o.verif, "verif", "/verif", "verification directory")
	fs.BoolVar(&o.mirror, "mirror", false, "prefer the contract mirror under /verif/contracts/mirror over the files in the repository")
	fs.BoolVar(&o.verbose, "v", false, "verbose")
	fs.IntVar(&o.timeout, "timeout", 0, "per-obligation solver timeout in seconds (default 30 quick / 120 thorough; obligations of the unchanged tree need at most ~7 s, the margin absorbs a slower or loaded machine)")
	fs.StringVar(&o.dumpDir, "dump", "", "write every query to this directory")
	fs.BoolVar(&o.noReplay, "no-replay", false, "do not run replays")
	fs.BoolVar(&o.noBounded, "no-bounded", false, "do not run the bounded checks registered in contracts")
	fs.BoolVar(&o_noClosure, "no-closure", false, "check only the functions tagged with the property, not the callees their proofs rely on")
	fs.BoolVar(&o.noEvidence, "no-evidence", false, "do not (re)write the evidence file (used when checking deliberately broken trees)")
	fs.StringVar(&o.only, "only", "", "only obligations whose name contains this string")
	var args []string
	rest := os.Args[2:]
	// allow flags after positional args
	for len(rest) > 0 {
		if strings.HasPrefix(rest[0], "-") {
			break
		}
		args = append(args, rest[0])
		rest = rest[1:]
	}
	fs.Parse(rest)
	args = append(args, fs.Args()...)
	if s := os.Getenv("VERIF_SEED"); s != "" {
		o.seed, _ = strconv.Atoi(s)
	}
	if o.timeout == 0 {
		o.timeout = 30
		if o.tier == "thorough" {
			o.timeout = 120
		}
	}
	defer cleanupScratch()
	code := 0
	switch cmd {
	case "check":
		if len(args) != 1 {
			usage()
		}
		code = cmdCheck(args[0], &o)
	case "dump":
		if len(args) != 1 {
			usage()
		}
		code = cmdDump(args[0], &o)
	case "replay":
		if len(args) != 1 {
			usage()
		}
		code = cmdReplay(args[0], &o)
	case "selftest":
		code = cmdSelftest(args, &o)
	case "list":
		code = cmdList(&o)
	case "sync-contracts":
		code = cmdSyncContracts(&o)
	case "record-signatures":
		code = cmdRecordSignatures(&o)
	default:
		usage()
	}
	cleanupScratch()
	os.Exit(code)
}

func envOr(k, d string) string {
	if v := os.Getenv(k); v != "" {
		return v
	}
	return d
}

func usage() {
	fmt.Fprintln(os.Stderr, `usage: govc check <Cxx> [--tier quick|thorough] [--repo DIR] [--mirror] [-v]
       govc dump <function-key-substring> [--mirror]
       govc replay <file>
       govc selftest [ids...]
       govc list
       govc sync-contracts`)
	os.Exit(2)
}

// ---------------------------------------------------------------------------

type checkResult struct {
	bounded       []boundedResult
	prop          string
	obls          []*Obligation
	funcs         []funcInfo
	genErrors     []string
	assumed       map[string]bool
	abstracted    map[string]bool
	warnings      []string
	contractsUsed map[string]bool
	loadSecs      float64
	genSecs       float64
	solveSecs     float64
}

type funcInfo struct {
	Key     string `json:"function"`
	Source  string `json:"source"`
	Hash    string `json:"source_sha256_prefix"`
	Obls    int    `json:"obligations"`
	Trusted bool   `json:"trusted,omitempty"`
	Via     string `json:"included_because,omitempty"`
}

// o_noClosure: development switch (--no-closure): check only the functions tagged with the property.
var o_noClosure bool

// generate builds all obligations of a property from the program.
func generate(p *Prog, prop string) *checkResult {
	cr := &checkResult{prop: prop, assumed: map[string]bool{}, abstracted: map[string]bool{}, contractsUsed: map[string]bool{}}
	start := time.Now()
	keys := p.contractedFuncsFor(prop)
	for _, r := range p.renamed {
		cr.abstracted["renamed since the contracts were written (bridged through contracts/signatures.json): "+r] = true
	}
	// The argument for a property is modular: a function proved for it relies on the contracts of the functions it
	// calls, so those callees' own proofs belong to the argument too, whichever properties their contracts are tagged
	// with. The set is closed under "calls by contract" (pulled[key] = the caller that brought the function in).
	seen := map[string]bool{}
	for _, k := range keys {
		seen[k] = true
	}
	pulled := map[string]string{}
	for ki := 0; ki < len(keys); ki++ {
		key := keys[ki]
		fc := p.cs.Funcs[key]
		fkey := key
		if fc.Variant != "" {
			fkey = strings.TrimSuffix(key, "@"+fc.Variant)
		}
		fn := p.funcs[fkey]
		sk := p.shortKey(key)
		if fn == nil {
			// a function that only linked other functions under contract may have been inlined into them: their own
			// obligations then cover the code that replaced it. A function nobody under contract called is a root of
			// the property's argument: its disappearance is reported.
			p.loadSignatures()
			if rs, ok := p.sigs[p.shortKey(fkey)]; ok && len(rs.Callers) > 0 {
				cr.abstracted["contract of "+sk+" skipped: the function no longer exists; it was called by "+strings.Join(rs.Callers, ", ")+", whose obligations cover the code that replaced it"] = true
				continue
			}
			cr.obls = append(cr.obls, &Obligation{Name: sk + "/TARGET", Class: "TARGET", Props: fc.Props, Expect: "unsat",
				Status: "failed", Desc: "contract target does not resolve to a function in the tree", FuncKey: sk,
				Result: SolverResult{Solver: "govc", Answer: "missing-target"}})
			continue
		}
		if fc.Trusted {
			src, h := p.funcSource(fn)
			cr.funcs = append(cr.funcs, funcInfo{Key: sk, Source: src, Hash: h, Trusted: true})
			cr.assumed["trusted contract (body not verified): "+sk+" — "+strings.Join(fc.Notes, "; ")] = true
			continue
		}
		enc := p.newEnc(fn, fc, sk)
		err := enc.Run()
		if err != nil {
			cr.genErrors = append(cr.genErrors, err.Error())
			cr.obls = append(cr.obls, &Obligation{Name: sk + "/GENERATE", Class: "GENERATE", Props: fc.Props, Expect: "unsat",
				Status: "failed", Desc: "verification conditions could not be generated: " + err.Error(), FuncKey: sk,
				Result: SolverResult{Solver: "govc", Answer: "generation-error"}})
			continue
		}
		n := 0
		_, isPulled := pulled[key]
		for _, ob := range enc.obls {
			if !isPulled && !obligationServes(ob, fc, prop) {
				continue
			}
			cr.obls = append(cr.obls, ob)
			n++
		}
		src, h := p.funcSource(fn)
		cr.funcs = append(cr.funcs, funcInfo{Key: sk, Source: src, Hash: h, Obls: n, Via: pulled[key]})
		if prop != "" && !o_noClosure {
			var more []string
			for k := range enc.usedKeys {
				if !seen[k] && p.cs.Funcs[k] != nil {
					more = append(more, k)
				}
			}
			sort.Strings(more)
			for _, k := range more {
				seen[k] = true
				pulled[k] = "called by " + sk
				keys = append(keys, k)
			}
		}
		for k := range enc.assumed {
			cr.assumed[k] = true
		}
		for k := range enc.abstracted {
			cr.abstracted[sk+": "+k] = true
		}
		for k := range enc.usedContracts {
			cr.contractsUsed[k] = true
		}
		for _, w := range enc.warnings {
			cr.warnings = append(cr.warnings, sk+": "+w)
		}
	}
	// global invariants: proved of the package initialiser; no other function writes the globals
	for pkgPath, invs := range p.cs.GlobalInvs {
		var mine []Clause
		for _, cl := range invs {
			if prop == "" || containsStr(cl.Props, prop) {
				mine = append(mine, cl)
			}
		}
		if len(mine) == 0 {
			continue
		}
		obls, info, err := p.globalInvObligations(pkgPath, mine, prop)
		if err != nil {
			cr.genErrors = append(cr.genErrors, err.Error())
			cr.obls = append(cr.obls, &Obligation{Name: p.shortKey(pkgPath) + ".init/GENERATE", Class: "GENERATE", Expect: "unsat", Status: "failed",
				Desc: err.Error(), Result: SolverResult{Solver: "govc", Answer: "generation-error"}})
			continue
		}
		cr.obls = append(cr.obls, obls...)
		cr.funcs = append(cr.funcs, info)
	}
	// closes-only channels: nothing in the module sends on them
	for _, co := range p.cs.ClosesOnly {
		if prop != "" && !containsStr(co.Props, prop) {
			continue
		}
		cr.obls = append(cr.obls, p.closesOnlyObligation(co, prop))
	}
	// frozen fields: assigned only while their object is under construction
	for _, fz := range p.cs.Frozen {
		if prop != "" && !containsStr(fz.Props, prop) {
			continue
		}
		cr.obls = append(cr.obls, p.frozenObligation(fz, prop))
	}
	// lemmas
	for _, lm := range p.cs.Lemmas {
		if !containsStr(lm.Props, prop) {
			continue
		}
		ob, err := p.lemmaObligation(lm)
		if err != nil {
			cr.genErrors = append(cr.genErrors, err.Error())
			cr.obls = append(cr.obls, &Obligation{Name: "lemma." + lm.Name + "/GENERATE", Class: "GENERATE", Expect: "unsat", Status: "failed",
				Desc: err.Error(), Result: SolverResult{Solver: "govc", Answer: "generation-error"}})
			continue
		}
		cr.obls = append(cr.obls, ob...)
	}
	cr.genSecs = time.Since(start).Seconds()
	return cr
}

func obligationServes(ob *Obligation, fc *FuncContract, prop string) bool {
	if prop == "" {
		return true
	}
	if len(ob.Props) > 0 {
		return containsStr(ob.Props, prop)
	}
	return containsStr(fc.Props, prop)
}

func (ob *Obligation) query(wantModel bool) string {
	if ob.Expect == "sat" {
		return ob.Script.QueryExcluding(ob.Goal, false, ob.cutDecls, ob.cutAsserts, ob.excluded)
	}
	if ob.sliced {
		return ob.Script.QuerySlicedDepth(Not(ob.Goal), wantModel, ob.cutDecls, ob.cutAsserts, ob.excluded, ob.sliceDepth)
	}
	return ob.Script.QueryExcluding(Not(ob.Goal), wantModel, ob.cutDecls, ob.cutAsserts, ob.excluded)
}

func sameSet(a, b map[int]bool) bool {
	if len(a) != len(b) {
		return false
	}
	for k := range a {
		if !b[k] {
			return false
		}
	}
	return true
}

func copySet(a map[int]bool) map[int]bool {
	out := map[int]bool{}
	for k := range a {
		out[k] = true
	}
	return out
}

func discharge(obls []*Obligation, o *options) float64 {
	start := time.Now()
	var proofs, covers []*Obligation
	for _, ob := range obls {
		if ob.Expect == "sat" {
			covers = append(covers, ob)
		} else {
			proofs = append(proofs, ob)
		}
	}
	dischargeSet(proofs, o)
	// Obligations that no solver decided within the time limit are tried once more, one at a time and with twice the
	// time, after the parallel phase: fourteen solver processes per check compete for the cores, and a non-linear
	// obligation that takes 3 s alone can exceed the limit only because of that. (More time, same query: this cannot
	// turn a failing obligation into a passing one unless a solver proves it.)
	retried := 0
	for _, ob := range proofs {
		if retried >= 4 {
			break
		}
		if ob.Status != "failed" || ob.Script == nil || !strings.Contains(ob.Result.Answer, "timeout") {
			continue
		}
		if strings.HasPrefix(ob.Result.Solver, "govc") {
			continue
		}
		retried++
		res, all := Solve(ob.query(false), o.tier, 2*o.timeout, ob.Name+".retry")
		if res.Answer == "unsat" {
			res.Solver += "+serial-retry"
			ob.Result, ob.All = res, all
			ob.Status = "discharged"
		}
	}
	// A failed obligation must not be assumed by the obligations after it (it could make them
	// vacuously true): re-check the later obligations of the same function without those facts.
	failedBy := map[*Script]map[int]bool{}
	for round := 0; round < 4; round++ {
		changed := false
		for _, ob := range proofs {
			if ob.Status == "failed" && ob.Script != nil && ob.assumeIdx >= 0 {
				if failedBy[ob.Script] == nil {
					failedBy[ob.Script] = map[int]bool{}
				}
				if !failedBy[ob.Script][ob.assumeIdx] {
					failedBy[ob.Script][ob.assumeIdx] = true
					changed = true
				}
			}
		}
		if !changed {
			break
		}
		var redo []*Obligation
		for _, ob := range proofs {
			ex := failedBy[ob.Script]
			if ob.Status != "discharged" || ob.Script == nil || len(ex) == 0 {
				continue
			}
			affected := false
			for idx := range ex {
				if idx < ob.cutAsserts || ob.cutAsserts < 0 {
					affected = true
				}
			}
			if affected && !sameSet(ob.excluded, ex) {
				ob.excluded = copySet(ex)
				ob.Status = ""
				redo = append(redo, ob)
			}
		}
		if len(redo) == 0 {
			break
		}
		dischargeSet(redo, o)
	}
	for _, ob := range covers {
		ob.excluded = failedBy[ob.Script]
	}
	dischargeSet(covers, o)
	return time.Since(start).Seconds()
}

func dischargeSet(obls []*Obligation, o *options) float64 {
	start := time.Now()
	var wg sync.WaitGroup
	sem := make(chan struct{}, 14)
	for _, ob := range obls {
		if ob.Status != "" {
			continue
		}
		if o.only != "" && !strings.Contains(ob.Name, o.only) {
			ob.Status = "skipped"
			continue
		}
		ob := ob
		wg.Add(1)
		sem <- struct{}{}
		go func() {
			defer wg.Done()
			defer func() { <-sem }()
			// first try the relevance slice of the background (sound for unsat); fall back to everything
			if ob.Expect != "sat" && ob.Script != nil {
				prev := ""
				for _, depth := range []int{1, 2, 4, -1} {
					ob.sliced, ob.sliceDepth = true, depth
					sq := ob.query(false)
					ob.sliced = false
					if sq == prev {
						continue
					}
					prev = sq
					if o.dumpDir != "" {
						os.MkdirAll(o.dumpDir, 0o755)
						os.WriteFile(filepath.Join(o.dumpDir, fmt.Sprintf("%s.slice%d.smt2", sanitize(ob.Name), depth)), []byte(sq), 0o644)
					}
					sto := 2
					if depth < 0 {
						sto = 4
					}
					res := runOne(context.Background(), solvers[0], writeQuery(sq), sto)
					if res.Answer == "unsat" {
						res.Solver += fmt.Sprintf("+slice(depth=%d)", depth)
						ob.Result, ob.All = res, []SolverResult{res}
						ob.Status = "discharged"
						return
					}
				}
			}
			q := ob.query(false)
			if o.dumpDir != "" {
				os.MkdirAll(o.dumpDir, 0o755)
				os.WriteFile(filepath.Join(o.dumpDir, sanitize(ob.Name)+".smt2"), []byte(q), 0o644)
			}
			tier := o.tier
			to := o.timeout
			if ob.Expect == "sat" {
				tier = "quick"
				if to > 4 {
					to = 4
				}
			}
			res, all := Solve(q, tier, to, ob.Name)
			ob.Result, ob.All = res, all
			if ob.Expect == "sat" {
				switch res.Answer {
				case "sat":
					ob.Status = "cover-ok"
				case "unsat":
					ob.Status = "cover-failed"
				default:
					// quantified assumptions make the solvers answer unknown for satisfiable queries: decide the
					// quantifier-free part instead (drops assumptions, so unsat is still a certain contradiction;
					// sat means no contradiction among the quantifier-free facts)
					ob.Status = "cover-unknown"
					ex := map[int]bool{}
					for k, v := range ob.excluded {
						ex[k] = v
					}
					for i, a := range ob.Script.Asserts {
						if strings.Contains(a, "(forall ") || strings.Contains(a, "(exists ") {
							ex[i] = true
						}
					}
					if !strings.Contains(ob.Goal.S, "(forall ") && !strings.Contains(ob.Goal.S, "(exists ") {
						q2 := ob.Script.QueryExcluding(ob.Goal, false, ob.cutDecls, ob.cutAsserts, ex)
						r2, _ := Solve(q2, "quick", to, ob.Name+".qf")
						switch r2.Answer {
						case "sat":
							ob.Status = "cover-ok"
							r2.Solver += "+qf-part"
							ob.Result = r2
						case "unsat":
							ob.Status = "cover-failed"
							r2.Solver += "+qf-part"
							ob.Result = r2
						}
					}
				}
				if ob.Status == "cover-failed" && strings.Contains(ob.Name, "/COVER.block") {
					defensiveDeadCode(ob, to)
				}
				return
			}
			if res.Answer == "unsat" {
				ob.Status = "discharged"
				return
			}
			ob.Status = "failed"
			// get a model
			if res.Answer == "sat" {
				mq := ob.query(true)
				mr, _ := Solve(mq, "quick", o.timeout, ob.Name+".model")
				if mr.Answer == "sat" {
					ob.Result.Model = mr.Model
				}
			}
			ob.QueryTxt = q
		}()
	}
	wg.Wait()
	return time.Since(start).Seconds()
}

// defensiveDeadCode: a block that no execution reaches is reported (its obligations hold vacuously, and contradictory
// assumptions would show up exactly like this) unless it is unreachable for the plain reason that its branch condition
// contradicts the function's own precondition: a defensive check (`if p == nil { return }` under `requires p != nil`)
// that no caller meeting the precondition can trigger. That is decided by asking again with everything learned after
// entry from contracts left out (callee postconditions, loop invariants, proved-then-assumed obligations): if the block
// is still unreachable, only the entry assumptions and the code's own conditions make it so.
func defensiveDeadCode(ob *Obligation, to int) {
	if ob.Script == nil {
		return
	}
	ex := map[int]bool{}
	for k, v := range ob.excluded {
		ex[k] = v
	}
	for i, a := range ob.Script.Asserts {
		for _, pre := range []string{"; ensures of", "; closure invariant of", "; onpanic of", "; assume loop", "; assumed after obligation", "; ASSUMED", "; receive on a closes-only"} {
			if strings.HasPrefix(a, pre) {
				ex[i] = true
			}
		}
	}
	q := ob.Script.QueryExcluding(ob.Goal, false, ob.cutDecls, ob.cutAsserts, ex)
	r, _ := Solve(q, "quick", to, ob.Name+".entry-only")
	if r.Answer == "unsat" {
		ob.Status = "cover-ok"
		r.Solver += "+unreachable-under-the-precondition"
		r.Answer = "dead-code"
		ob.Result = r
	}
}

func cmdCheck(prop string, o *options) int {
	t0 := time.Now()
	p, err := loadProg(o.repo, o.verif, nil, o.mirror)
	if err != nil {
		fmt.Printf("govc: cannot load %s: %v\n", o.repo, err)
		// the tree does not build: nothing can be proved
		path := writeReplayFile(o, prop, "LOAD", map[string]any{"obligation": "LOAD", "error": err.Error()})
		fmt.Printf("VIOLATION property=%s replay=%s no-failing-input-found\n", prop, path)
		return 1
	}
	loadSecs := time.Since(t0).Seconds()
	cr := generate(p, prop)
	cr.loadSecs = loadSecs
	cr.solveSecs = discharge(cr.obls, o)
	if !o.noBounded {
		runBoundedChecks(p, cr, o)
	}
	return report(p, cr, o, time.Since(t0).Seconds())
}

// boundedResult: outcome of one bounded check of the real code (never counted among the proof obligations).
type boundedResult struct {
	Name     string  `json:"name"`
	Function string  `json:"function"`
	Driver   string  `json:"driver"`
	Bound    string  `json:"what_is_enumerated_and_the_bound"`
	Status   string  `json:"status"` // held | violated | error
	Summary  string  `json:"summary"`
	Seconds  float64 `json:"seconds"`
	Cmd      string  `json:"cmd"`
	Output   string  `json:"output,omitempty"`
}

func runBoundedChecks(p *Prog, cr *checkResult, o *options) {
	for _, key := range p.contractedFuncsFor(cr.prop) {
		fc := p.cs.Funcs[key]
		for i, bc := range fc.Bounded {
			if len(bc.Props) > 0 && !containsStr(bc.Props, cr.prop) {
				continue
			}
			name := fmt.Sprintf("%s/BOUNDED.%s", p.shortKey(key), bc.Driver)
			if bc.Label != "" {
				name = fmt.Sprintf("%s/BOUNDED.%s", p.shortKey(key), bc.Label)
			}
			_ = i
			if o.only != "" && !strings.Contains(name, o.only) {
				continue
			}
			br := boundedResult{Name: name, Function: p.shortKey(key), Bound: bc.Text,
				Driver: filepath.Join(o.verif, "replay", "bounded", bc.Driver+"_test.go.txt")}
			t0 := time.Now()
			rr := &replayResult{Driver: br.Driver, Inputs: map[string]string{}}
			if src, err := os.ReadFile(br.Driver); err == nil {
				if m := replayPkgRe.FindSubmatch(src); m != nil {
					rr.Package = string(m[1])
				}
			}
			runGoTestDriver(p.repoDir, rr, name, "TestGovcBounded", []string{"GOVC_BOUNDED_TIER=" + o.tier}, 600)
			br.Seconds = round3(time.Since(t0).Seconds())
			br.Cmd = rr.Cmd
			for _, ln := range strings.Split(rr.Output, "\n") {
				if strings.HasPrefix(ln, "GOVC-BOUNDED:") {
					br.Summary = strings.TrimSpace(strings.TrimPrefix(ln, "GOVC-BOUNDED:"))
				}
			}
			switch {
			case strings.HasPrefix(br.Summary, "ok"):
				br.Status = "held"
			case strings.HasPrefix(br.Summary, "violated"):
				br.Status = "violated"
				br.Output = rr.Output
			default:
				br.Status = "error"
				br.Output = rr.Output + rr.Note
			}
			cr.bounded = append(cr.bounded, br)
		}
	}
}

// ---------------------------------------------------------------------------
// reporting

type knownFinding struct {
	Property   string            `json:"property"`
	Obligation string            `json:"obligation"`
	Witness    map[string]string `json:"witness,omitempty"`
	What       string            `json:"what"`
}

type knownFile struct {
	Findings []knownFinding `json:"findings"`
	Fixed    []string       `json:"fixed"`
}

func loadKnown(o *options) knownFile {
	var kf knownFile
	data, err := os.ReadFile(filepath.Join(o.verif, "known_findings.json"))
	if err == nil {
		json.Unmarshal(data, &kf)
	}
	return kf
}

func writeReplayFile(o *options, prop, oblName string, content map[string]any) string {
	dir := filepath.Join(o.verif, "replays", prop)
	os.MkdirAll(dir, 0o755)
	path := filepath.Join(dir, sanitize(oblName)+".json")
	data, _ := json.MarshalIndent(content, "", " ")
	os.WriteFile(path, data, 0o644)
	return path
}

func report(p *Prog, cr *checkResult, o *options, wall float64) int {
	known := loadKnown(o)
	if o.only == "" && cr.prop != "" {
		// replay files describe the current run only
		os.RemoveAll(filepath.Join(o.verif, "replays", cr.prop))
	}
	var nObl, nDis, nCover, nCoverOK, nCoverUnknown int
	var failed, coverFailed []*Obligation
	byBackend := map[string]int{}
	var solverTime float64
	var maxTime float64
	var slowest string
	for _, ob := range cr.obls {
		if ob.Status == "skipped" {
			continue
		}
		if ob.Expect == "sat" {
			nCover++
			switch ob.Status {
			case "cover-ok":
				nCoverOK++
			case "cover-failed":
				coverFailed = append(coverFailed, ob)
			default:
				nCoverUnknown++
			}
			continue
		}
		nObl++
		solverTime += ob.Result.Seconds
		if ob.Result.Seconds > maxTime {
			maxTime, slowest = ob.Result.Seconds, ob.Name
		}
		if ob.Status == "discharged" {
			nDis++
			byBackend[ob.Result.Solver]++
		} else {
			failed = append(failed, ob)
		}
	}
	exit := 0
	violations := 0
	var knownLines []string
	for _, ob := range failed {
		model := ParseModel(ob.Result.Model)
		if kf := matchKnown(known, cr.prop, ob, model); kf != nil {
			line := fmt.Sprintf("KNOWN-FINDING: property=%s %s [%s]", cr.prop, kf.What, ob.Name)
			fmt.Println(line)
			knownLines = append(knownLines, line)
			nDis++ // accounted for: not an undischarged unknown
			continue
		}
		violations++
		exit = 1
		content := map[string]any{
			"property":    cr.prop,
			"obligation":  ob.Name,
			"class":       ob.Class,
			"description": ob.Desc,
			"position":    ob.Pos,
			"solver":      ob.Result.Solver,
			"answer":      ob.Result.Answer,
			"seconds":     ob.Result.Seconds,
			"model":       trimModel(model),
			"all_solvers": summarizeAll(ob.All),
		}
		suffix := " no-failing-input-found"
		if !o.noReplay && ob.Result.Answer == "sat" {
			if rr := tryReplay(p, ob, model, o); rr != nil {
				content["replay"] = rr
				if rr.Reproduced {
					suffix = ""
				}
			}
		} else if !o.noReplay && ob.FuncKey != "" {
			// no model (quantified goal: the solvers answer unknown): a driver may still carry a built-in witness for
			// its function and try it on the real code
			if rr := tryReplayNoModel(p, ob, o); rr != nil {
				content["replay"] = rr
				if rr.Reproduced {
					suffix = ""
				}
			}
		}
		if ob.QueryTxt != "" && len(ob.QueryTxt) < 400000 {
			qpath := filepath.Join(o.verif, "replays", cr.prop, sanitize(ob.Name)+".smt2")
			os.MkdirAll(filepath.Dir(qpath), 0o755)
			os.WriteFile(qpath, []byte(ob.QueryTxt), 0o644)
			content["query_file"] = qpath
		}
		path := writeReplayFile(o, cr.prop, ob.Name, content)
		fmt.Printf("FAILED %s (%s: %s) %s\n  %s\n", ob.Name, ob.Result.Solver, ob.Result.Answer, ob.Pos, ob.Desc)
		fmt.Printf("VIOLATION property=%s replay=%s%s\n", cr.prop, path, suffix)
	}
	for _, ob := range coverFailed {
		violations++
		exit = 1
		path := writeReplayFile(o, cr.prop, ob.Name, map[string]any{"property": cr.prop, "obligation": ob.Name, "class": "COVER",
			"description": "vacuity guard failed: the assumptions of this function are contradictory or the block is unreachable", "answer": ob.Result.Answer})
		fmt.Printf("FAILED %s (vacuity guard: %s)\n", ob.Name, ob.Result.Answer)
		fmt.Printf("VIOLATION property=%s replay=%s no-failing-input-found\n", cr.prop, path)
	}
	for _, br := range cr.bounded {
		if br.Status == "held" {
			continue
		}
		violations++
		exit = 1
		path := writeReplayFile(o, cr.prop, br.Name, map[string]any{"property": cr.prop, "obligation": br.Name, "class": "BOUNDED",
			"description": "bounded check of the real code: " + br.Bound, "status": br.Status, "failing_input": br.Summary, "cmd": br.Cmd, "output": br.Output,
			"driver": br.Driver, "tier": o.tier})
		fmt.Printf("FAILED %s (bounded run of the real code: %s) %s\n", br.Name, br.Status, br.Summary)
		if br.Status == "violated" {
			fmt.Printf("VIOLATION property=%s replay=%s\n", cr.prop, path)
		} else {
			fmt.Printf("VIOLATION property=%s replay=%s no-failing-input-found\n", cr.prop, path)
		}
	}
	if nObl == 0 {
		exit = 1
		violations++
		path := writeReplayFile(o, cr.prop, "NO-OBLIGATIONS", map[string]any{"property": cr.prop, "obligation": "NO-OBLIGATIONS",
			"description": "no obligation was generated for this property (vacuity guard)"})
		fmt.Printf("VIOLATION property=%s replay=%s no-failing-input-found\n", cr.prop, path)
	}
	// evidence
	if !o.noEvidence {
		writeEvidence(p, cr, o, wall, nObl, nDis, nCover, nCoverOK, byBackend, solverTime, maxTime, slowest, violations, knownLines)
	}
	fmt.Printf("govc: property %s tier %s: %d obligations, %d discharged, %d cover guards (%d ok), %d functions, load %.1fs gen %.1fs solve %.1fs wall %.1fs\n",
		cr.prop, o.tier, nObl, nDis, nCover, nCoverOK, len(cr.funcs), cr.loadSecs, cr.genSecs, cr.solveSecs, wall)
	if o.verbose {
		for _, ob := range cr.obls {
			fmt.Printf("  %-14s %-12s %6.2fs %s\n", ob.Status, ob.Result.Solver, ob.Result.Seconds, ob.Name)
		}
		for _, w := range cr.warnings {
			fmt.Println("warning:", w)
		}
	}
	return exit
}

func summarizeAll(all []SolverResult) []map[string]any {
	var out []map[string]any
	for _, r := range all {
		raw := r.Raw
		if len(raw) > 300 {
			raw = raw[:300]
		}
		out = append(out, map[string]any{"solver": r.Solver, "answer": r.Answer, "seconds": r.Seconds, "output": raw})
	}
	return out
}

func trimModel(m map[string]string) map[string]string {
	out := map[string]string{}
	for k, v := range m {
		if strings.HasPrefix(k, "p_") || strings.HasPrefix(k, "fv_") || strings.HasPrefix(k, "result") || strings.HasPrefix(k, "v_") {
			if len(v) < 200 {
				out[k] = v
			}
		}
	}
	return out
}

func matchKnown(kf knownFile, prop string, ob *Obligation, model map[string]string) *knownFinding {
	for i := range kf.Findings {
		f := &kf.Findings[i]
		if f.Property != prop || f.Obligation != ob.Name {
			continue
		}
		return f
	}
	return nil
}

type evidence struct {
	PropertyID  string         `json:"property_id"`
	Tier        string         `json:"tier"`
	Seed        int            `json:"seed"`
	Level       string         `json:"level"`
	Coverage    map[string]any `json:"coverage"`
	Assumptions []string       `json:"assumptions"`
	WallS       float64        `json:"wall_s"`
	Violations  int            `json:"violations"`
}

func sortedKeys(m map[string]bool) []string {
	var ks []string
	for k := range m {
		ks = append(ks, k)
	}
	sort.Strings(ks)
	return ks
}

func writeEvidence(p *Prog, cr *checkResult, o *options, wall float64, nObl, nDis, nCover, nCoverOK int, byBackend map[string]int,
	solverTime, maxTime float64, slowest string, violations int, knownLines []string) {
	var per []map[string]any
	var samples []any
	for _, ob := range cr.obls {
		if ob.Status == "skipped" {
			continue
		}
		per = append(per, map[string]any{"name": ob.Name, "class": ob.Class, "status": ob.Status, "backend": ob.Result.Solver,
			"answer": ob.Result.Answer, "seconds": round3(ob.Result.Seconds), "position": ob.Pos})
	}
	// samples: a few obligations written out
	n := 0
	for _, ob := range cr.obls {
		if ob.Expect != "unsat" || ob.Script == nil || n >= 3 {
			continue
		}
		if ob.Class == "ensures" || ob.Class == "inv.exit" || strings.HasPrefix(ob.Class, "inv.preserve") || n == 0 {
			goal := ob.Goal.S
			if len(goal) > 1500 {
				goal = goal[:1500] + " …"
			}
			samples = append(samples, map[string]any{"obligation": ob.Name, "description": ob.Desc, "goal_smt": goal,
				"background_assertions": ob.cutAsserts})
			n++
		}
	}
	assumptions := sortedKeys(cr.assumed)
	trusted := []string{
		"go/types + go/ssa (x/tools v0.29.0) faithfully represent the compiled program; govc's VC generator and SMT printing",
		"z3 4.8.12 / z3-new 5.1.0 / cvc5 1.0 answer unsat only when unsatisfiable",
		"Go semantics as modelled in DESIGN.md §2.2 (heap per struct field, defer/recover order, SC atomics)",
	}
	for _, a := range assumptions {
		if strings.Contains(a, "(trusted") {
			trusted = append(trusted, a)
		}
	}
	cov := map[string]any{
		"obligations":                  nObl,
		"discharged":                   nDis,
		"checker_cmd":                  fmt.Sprintf("bin/govc check %s --tier %s", cr.prop, o.tier),
		"trusted_base":                 trusted,
		"functions_under_contract":     cr.funcs,
		"per_obligation":               per,
		"discharged_by_backend":        byBackend,
		"solver_seconds_total":         round3(solverTime),
		"slowest_obligation":           map[string]any{"name": slowest, "seconds": round3(maxTime)},
		"cover_guards":                 map[string]any{"total": nCover, "satisfiable": nCoverOK, "inconclusive": nCover - nCoverOK, "note": "a guard answered unsat is a violation (vacuity); when quantified assumptions make the full query unknown, the guard is decided on the quantifier-free part of the assumptions (unsat there is still a certain contradiction; sat there is reported as satisfiable with backend suffix +qf-part)"},
		"abstracted":                   sortedKeys(cr.abstracted),
		"contracts_used_at_call_sites": sortedKeys(cr.contractsUsed),
		"contract_files":               p.cs.Files,
		"contract_token_scan":          p.cs.Scan,
		"generation_errors":            cr.genErrors,
		"known_findings_reported":      knownLines,
		"samples":                      samples,
		"timing":                       map[string]any{"load_s": round3(cr.loadSecs), "generate_s": round3(cr.genSecs), "solve_s": round3(cr.solveSecs)},
		"explanation":                  propertyExplanation(cr.prop),
	}
	if len(cr.bounded) > 0 {
		cov["bounded_checks"] = cr.bounded
		cov["bounded_checks_note"] = "bounded runs of the real code that stand in for clauses the verifier cannot decide; labelled bounded, not counted in obligations/discharged, nothing is claimed beyond the stated bound"
	}
	if extra := extraCoverage(cr.prop, o); extra != nil {
		for k, v := range extra {
			cov[k] = v
		}
	}
	ev := evidence{PropertyID: cr.prop, Tier: o.tier, Seed: o.seed, Level: "proof", Coverage: cov, Assumptions: assumptions, WallS: round3(wall), Violations: violations}
	dir := filepath.Join(o.verif, "evidence")
	os.MkdirAll(dir, 0o755)
	data, _ := json.MarshalIndent(ev, "", " ")
	os.WriteFile(filepath.Join(dir, cr.prop+".json"), data, 0o644)
}

func round3(f float64) float64 { return float64(int(f*1000+0.5)) / 1000 }

// ---------------------------------------------------------------------------

func cmdDump(sub string, o *options) int {
	p, err := loadProg(o.repo, o.verif, nil, o.mirror)
	if err != nil {
		fmt.Println(err)
		return 1
	}
	for _, key := range p.contractedFuncsFor("") {
		if !strings.Contains(key, sub) {
			continue
		}
		fn := p.funcs[key]
		if fn == nil {
			fmt.Println("missing:", key)
			continue
		}
		enc := p.newEnc(fn, p.cs.Funcs[key], p.shortKey(key))
		if err := enc.Run(); err != nil {
			fmt.Println("error:", err)
			continue
		}
		fmt.Printf(";;;; %s: %d obligations\n", key, len(enc.obls))
		for _, d := range enc.sc.Datatypes {
			fmt.Println(d)
		}
		for _, d := range enc.sc.Decls {
			fmt.Println(d)
		}
		for _, a := range enc.sc.Asserts {
			fmt.Println(a)
		}
		for _, ob := range enc.obls {
			fmt.Printf(";; OBLIGATION %s [%s] cut=%d: %s\n;;   %s\n", ob.Name, ob.Expect, ob.cutAsserts, ob.Desc, ob.Goal.S)
		}
		for _, w := range enc.warnings {
			fmt.Println(";; warning:", w)
		}
		fn.WriteTo(os.Stdout)
	}
	return 0
}

func cmdList(o *options) int {
	p, err := loadProg(o.repo, o.verif, nil, o.mirror)
	if err != nil {
		fmt.Println(err)
		return 1
	}
	for _, key := range p.contractedFuncsFor("") {
		fc := p.cs.Funcs[key]
		st := "ok"
		if p.funcs[key] == nil {
			st = "MISSING"
		}
		fmt.Printf("%-90s %v %s\n", p.shortKey(key), fc.Props, st)
	}
	return 0
}

func cmdSyncContracts(o *options) int {
	mirror := filepath.Join(o.verif, "contracts", "mirror")
	n := 0
	filepath.Walk(mirror, func(path string, info os.FileInfo, err error) error {
		if err != nil || info.IsDir() || info.Name() != "zz_contracts_verif.go" {
			return nil
		}
		rel, _ := filepath.Rel(mirror, path)
		dst := filepath.Join(o.repo, rel)
		data, _ := os.ReadFile(path)
		old, _ := os.ReadFile(dst)
		if string(old) != string(data) {
			os.WriteFile(dst, data, 0o644)
			fmt.Println("updated", dst)
			n++
		}
		return nil
	})
	fmt.Printf("%d contract files updated in %s\n", n, o.repo)
	return 0
}
