package main

// Loading /repo (go/packages + go/ssa), contract discovery, function lookup.

import (
	"encoding/json"
	"crypto/sha256"
	"fmt"
	"go/token"
	"go/types"
	"os"
	"path/filepath"
	"sort"
	"strings"
	"sync"

	"golang.org/x/tools/go/packages"
	"golang.org/x/tools/go/ssa"
	"golang.org/x/tools/go/ssa/ssautil"
)

type Prog struct {
	sigs map[string]recordedSig
	renamed []string // renames bridged by resolveRenames (reported in the evidence)
	gw     map[string]map[string]bool
	gwOnce sync.Once
	repoDir     string
	verifDir    string
	modPath     string
	fset        *token.FileSet
	pkgs        []*packages.Package
	ssaProg     *ssa.Program
	ssaPkgs     []*ssa.Package
	cs          *ContractSet
	funcs       map[string]*ssa.Function // key: pkgpath + "." + RelString
	byFn        map[*ssa.Function]string
	contractSrc map[string]string // pkgpath -> "repo" | "mirror"
	overlay     map[string][]byte
	loadSecs    float64
	fnIDs       map[string]int
	fnMu        sync.Mutex
}

// fnTermByName gives every static function (by its full ssa name) a distinct positive identifier,
// stable across all functions verified in one run.
func (p *Prog) fnTermByName(name string) Term {
	p.fnMu.Lock()
	defer p.fnMu.Unlock()
	if p.fnIDs == nil {
		p.fnIDs = map[string]int{}
	}
	id, ok := p.fnIDs[name]
	if !ok {
		id = 1000 + len(p.fnIDs)
		p.fnIDs[name] = id
	}
	return IntLit(int64(id))
}

// lookupFunc finds a module function by a key suffix such as "testing.(*T).teardown".
func (p *Prog) lookupFunc(suffix string) *ssa.Function {
	var found *ssa.Function
	for key, f := range p.funcs {
		if key == suffix || strings.HasSuffix(key, "/"+suffix) || strings.HasSuffix(key, "."+suffix) {
			if found != nil && found != f {
				return nil
			}
			found = f
		}
	}
	return found
}

func loadProg(repoDir, verifDir string, overlay map[string][]byte, preferMirror bool) (*Prog, error) {
	p := &Prog{repoDir: repoDir, verifDir: verifDir, funcs: map[string]*ssa.Function{}, byFn: map[*ssa.Function]string{},
		contractSrc: map[string]string{}, overlay: overlay}
	p.fset = token.NewFileSet()
	cfg := &packages.Config{
		Mode:       packages.LoadAllSyntax | packages.NeedModule,
		Dir:        repoDir,
		Fset:       p.fset,
		Tests:      false,
		BuildFlags: []string{"-tags=verif"},
		Env:        append(os.Environ(), "GOFLAGS=-mod=mod", "GOPROXY=off", "GOSUMDB=off", "GOTOOLCHAIN=local"),
		Overlay:    overlay,
	}
	pkgs, err := packages.Load(cfg, "./...")
	if err != nil {
		return nil, fmt.Errorf("packages.Load: %w", err)
	}
	var errs []string
	packages.Visit(pkgs, nil, func(pk *packages.Package) {
		for _, e := range pk.Errors {
			errs = append(errs, e.Error())
		}
	})
	if len(errs) > 0 {
		return nil, fmt.Errorf("load errors: %s", strings.Join(errs, "; "))
	}
	p.pkgs = pkgs
	for _, pk := range pkgs {
		if pk.Module != nil {
			p.modPath = pk.Module.Path
			break
		}
	}
	if p.modPath == "" {
		return nil, fmt.Errorf("cannot determine module path")
	}
	prog, spkgs := ssautil.AllPackages(pkgs, ssa.GlobalDebug|ssa.InstantiateGenerics)
	prog.Build()
	p.ssaProg = prog
	p.ssaPkgs = spkgs
	for _, sp := range spkgs {
		if sp == nil {
			continue
		}
		for _, m := range sp.Members {
			if f, ok := m.(*ssa.Function); ok {
				p.addFunc(f)
			}
			if t, ok := m.(*ssa.Type); ok {
				ms := prog.MethodSets.MethodSet(t.Type())
				for i := 0; i < ms.Len(); i++ {
					if f := prog.MethodValue(ms.At(i)); f != nil {
						p.addFunc(f)
					}
				}
				ms = prog.MethodSets.MethodSet(types.NewPointer(t.Type()))
				for i := 0; i < ms.Len(); i++ {
					if f := prog.MethodValue(ms.At(i)); f != nil {
						p.addFunc(f)
					}
				}
			}
		}
	}
	// contracts
	p.cs = newContractSet()
	mirror := filepath.Join(verifDir, "contracts", "mirror")
	for _, pk := range pkgs {
		if len(pk.GoFiles) == 0 {
			continue
		}
		dir := filepath.Dir(pk.GoFiles[0])
		rel, err := filepath.Rel(repoDir, dir)
		if err != nil {
			continue
		}
		file, src := contractFileFor(repoDir, rel, mirror, preferMirror)
		if file == "" {
			continue
		}
		p.contractSrc[pk.PkgPath] = src
		if err := p.cs.LoadContractFile(file, pk.PkgPath); err != nil {
			return nil, err
		}
	}
	p.resolveRenames()
	return p, nil
}

func (p *Prog) addFunc(f *ssa.Function) {
	if f.Pkg == nil || f.Synthetic != "" && !strings.Contains(f.Synthetic, "instance") {
		if f.Pkg == nil {
			return
		}
	}
	if _, seen := p.byFn[f]; seen {
		return
	}
	key := f.Pkg.Pkg.Path() + "." + f.RelString(f.Pkg.Pkg)
	p.funcs[key] = f
	p.byFn[f] = key
	for _, af := range f.AnonFuncs {
		p.addFunc(af)
	}
}

func (p *Prog) contractOf(f *ssa.Function) *FuncContract {
	return p.contractOfVariant(f, "")
}

// contractOfVariant: in a variant pass only contracts of that variant may be used for module callees
// (the base contracts describe a different setting, e.g. no interference).
func (p *Prog) contractOfVariant(f *ssa.Function, variant string) *FuncContract {
	key, ok := p.byFn[f]
	if !ok {
		if f.Pkg == nil {
			return nil
		}
		key = f.Pkg.Pkg.Path() + "." + f.RelString(f.Pkg.Pkg)
	}
	if variant != "" {
		return p.cs.Funcs[key+"@"+variant]
	}
	return p.cs.Funcs[key]
}

func (p *Prog) typesPkg(path string) *types.Package {
	for _, pk := range p.pkgs {
		if pk.PkgPath == path {
			return pk.Types
		}
	}
	var found *types.Package
	packages.Visit(p.pkgs, nil, func(pk *packages.Package) {
		if pk.PkgPath == path {
			found = pk.Types
		}
	})
	return found
}

// resolveType evaluates a type expression such as "*IterationDurations" or "time.Duration" in the
// scope of package pkgPath.
func (p *Prog) resolveType(pkgPath, expr string) types.Type {
	pk := p.typesPkg(pkgPath)
	if pk == nil {
		return nil
	}
	expr = strings.TrimSpace(expr)
	// a named type renamed since the contracts were written (see resolveRenames)
	for was, is := range typeAlias[pkgPath] {
		if containsIdent(expr, was) {
			expr = replaceIdent(expr, was, is)
		}
	}
	switch expr {
	case "int":
		return types.Typ[types.Int]
	case "int64":
		return types.Typ[types.Int64]
	case "uint64":
		return types.Typ[types.Uint64]
	case "bool":
		return types.Typ[types.Bool]
	case "string":
		return types.Typ[types.String]
	case "float64":
		return types.Typ[types.Float64]
	case "real":
		return nil
	}
	tv, err := types.Eval(p.fset, pk, token.NoPos, expr)
	if err != nil || !tv.IsType() {
		// qualified names: imports are file-scoped, so resolve "*pkg.T" / "[]pkg.T" / "pkg.T" by hand
		switch {
		case strings.HasPrefix(expr, "*"):
			if t := p.resolveType(pkgPath, expr[1:]); t != nil {
				return types.NewPointer(t)
			}
			return nil
		case strings.HasPrefix(expr, "[]"):
			if t := p.resolveType(pkgPath, expr[2:]); t != nil {
				return types.NewSlice(t)
			}
			return nil
		}
		if k := strings.Index(expr, "."); k > 0 {
			pn, tn := expr[:k], expr[k+1:]
			var found types.Type
			seen := map[*types.Package]bool{}
			var visit func(q *types.Package, depth int)
			visit = func(q *types.Package, depth int) {
				if q == nil || seen[q] || found != nil || depth > 3 {
					return
				}
				seen[q] = true
				if q.Name() == pn {
					if obj := q.Scope().Lookup(tn); obj != nil {
						if _, ok := obj.(*types.TypeName); ok {
							found = obj.Type()
							return
						}
					}
				}
				for _, imp := range q.Imports() {
					visit(imp, depth+1)
				}
			}
			for _, imp := range pk.Imports() {
				visit(imp, 0)
			}
			return found
		}
		return nil
	}
	return tv.Type
}

// shortKey renders a function key with the module path stripped: internal/run.(*Result).Failed
func (p *Prog) shortKey(key string) string {
	return strings.TrimPrefix(strings.TrimPrefix(key, p.modPath), "/")
}

// fileHash returns the sha256 of the source file containing f, and file:line.
func (p *Prog) funcSource(f *ssa.Function) (string, string) {
	pos := p.fset.Position(f.Pos())
	if pos.Filename == "" {
		return "", ""
	}
	data, err := os.ReadFile(pos.Filename)
	if ov, ok := p.overlay[pos.Filename]; ok {
		data, err = ov, nil
	}
	if err != nil {
		return fmt.Sprintf("%s:%d", relPath(p.repoDir, pos.Filename), pos.Line), ""
	}
	h := sha256.Sum256(data)
	return fmt.Sprintf("%s:%d", relPath(p.repoDir, pos.Filename), pos.Line), fmt.Sprintf("%x", h[:8])
}

// contractedFuncsFor returns the keys of functions under contract that serve property id.
func (p *Prog) contractedFuncsFor(prop string) []string {
	var keys []string
	for k, fc := range p.cs.Funcs {
		if prop == "" || containsStr(fc.Props, prop) || clauseMentions(fc, prop) {
			keys = append(keys, k)
		}
	}
	sort.Strings(keys)
	return keys
}

func clauseMentions(fc *FuncContract, prop string) bool {
	for _, cls := range [][]Clause{fc.Requires, fc.Ensures, fc.OnPanic, fc.Invs} {
		for _, c := range cls {
			if containsStr(c.Props, prop) {
				return true
			}
		}
	}
	return false
}

func containsStr(xs []string, s string) bool {
	for _, x := range xs {
		if x == s {
			return true
		}
	}
	return false
}


// ---------------------------------------------------------------------------
// Recorded signatures: contracts refer to parameters, receivers and captured variables by the names
// they had when the contract was written. `govc record-signatures` stores those names (and, for each
// function under contract, which other functions under contract call it) in
// /verif/contracts/signatures.json; when a parameter has since been renamed, the recorded name is
// bound as an alias of the parameter in the same position, so a rename does not break the contract.

type recordedSig struct {
	Params   []string `json:"params"`
	ParamTypes []string `json:"param_types,omitempty"`
	Results    []string `json:"results,omitempty"`
	FreeVars []string `json:"freevars"`
	Callers  []string `json:"callers,omitempty"`
}

func (p *Prog) loadSignatures() {
	if p.sigs != nil {
		return
	}
	p.sigs = map[string]recordedSig{}
	data, err := os.ReadFile(filepath.Join(p.verifDir, "contracts", "signatures.json"))
	if err != nil {
		return
	}
	json.Unmarshal(data, &p.sigs)
}

func (p *Prog) funcKey(fn *ssa.Function) string {
	if k, ok := p.byFn[fn]; ok {
		return p.shortKey(k)
	}
	if fn.Pkg == nil {
		return fn.String()
	}
	return p.shortKey(fn.Pkg.Pkg.Path() + "." + fn.RelString(fn.Pkg.Pkg))
}

// aliasName binds the recorded name of parameter/free variable i of fn to the value bound under its current name.
func (p *Prog) aliasName(binds map[string]specVal, fn *ssa.Function, kind string, i int, current string) {
	if fn == nil {
		return
	}
	p.loadSignatures()
	rs, ok := p.sigs[p.funcKey(fn)]
	if !ok {
		return
	}
	names := rs.Params
	if kind == "freevars" {
		names = rs.FreeVars
	}
	if i >= len(names) || names[i] == current || names[i] == "" || names[i] == "_" {
		return
	}
	if _, taken := binds[names[i]]; taken {
		return
	}
	binds[names[i]] = binds[current]
}

func cmdRecordSignatures(o *options) int {
	p, err := loadProg(o.repo, o.verif, nil, o.mirror)
	if err != nil {
		fmt.Println(err)
		return 2
	}
	out := map[string]recordedSig{}
	under := map[*ssa.Function]string{}
	for key, fc := range p.cs.Funcs {
		k := key
		if fc.Variant != "" {
			k = strings.TrimSuffix(key, "@"+fc.Variant)
		}
		if fn := p.funcs[k]; fn != nil {
			under[fn] = p.shortKey(k)
		}
	}
	for fn, sk := range under {
		var rs recordedSig
		for _, prm := range fn.Params {
			rs.Params = append(rs.Params, prm.Name())
			rs.ParamTypes = append(rs.ParamTypes, types.TypeString(prm.Type(), qualPath))
		}
		for _, fv := range fn.FreeVars {
			rs.FreeVars = append(rs.FreeVars, fv.Name())
		}
		rs.Results = resultTypeStrings(fn)
		out[sk] = rs
	}
	// field names (by position) and field types of every named struct type of the module
	for _, sp := range p.ssaPkgs {
		if sp == nil || !strings.HasPrefix(sp.Pkg.Path(), p.modPath) {
			continue
		}
		for _, m := range sp.Members {
			t, ok := m.(*ssa.Type)
			if !ok {
				continue
			}
			st, ok := t.Type().Underlying().(*types.Struct)
			if !ok {
				continue
			}
			var rs recordedSig
			for i := 0; i < st.NumFields(); i++ {
				rs.Params = append(rs.Params, st.Field(i).Name())
				rs.ParamTypes = append(rs.ParamTypes, types.TypeString(st.Field(i).Type(), qualPath))
			}
			out["struct:"+p.shortKey(sp.Pkg.Path()+"."+t.Name())] = rs
		}
	}
	// callers among the functions under contract (static calls, go and defer statements)
	for fn, sk := range under {
		for _, b := range fn.Blocks {
			for _, ins := range b.Instrs {
				ci, ok := ins.(ssa.CallInstruction)
				if !ok {
					continue
				}
				if callee := ci.Common().StaticCallee(); callee != nil {
					if ck, ok := under[callee]; ok && ck != sk {
						rs := out[ck]
						dup := false
						for _, c := range rs.Callers {
							if c == sk {
								dup = true
							}
						}
						if !dup {
							rs.Callers = append(rs.Callers, sk)
							sort.Strings(rs.Callers)
							out[ck] = rs
						}
					}
				}
			}
		}
	}
	data, _ := json.MarshalIndent(out, "", " ")
	path := filepath.Join(o.verif, "contracts", "signatures.json")
	if err := os.WriteFile(path, data, 0o644); err != nil {
		fmt.Println(err)
		return 2
	}
	fmt.Printf("recorded %d signatures in %s\n", len(out), path)
	return 0
}

// ghostWriters: for each ghost variable, the functions (package path + target, variants merged) whose contracts
// assign it in a hook or name it in a modifies clause. fnspecs and lemmas that name it count as writers too.
func (p *Prog) ghostWriters() map[string]map[string]bool {
	p.gwOnce.Do(func() {
		p.gw = map[string]map[string]bool{}
		add := func(g, who string) {
			if p.gw[g] == nil {
				p.gw[g] = map[string]bool{}
			}
			p.gw[g][who] = true
		}
		scan := func(fc *FuncContract, who string) {
			for _, h := range fc.Hooks {
				for _, st := range h.Stmts {
					if st.Kind == "assign" {
						add(st.Target, who)
					}
				}
			}
			for _, m := range fc.Modifies {
				for g := range p.cs.Ghosts {
					if containsIdent(m.Text, g) {
						add(g, who)
					}
				}
			}
		}
		for _, fc := range p.cs.Funcs {
			scan(fc, fc.PkgPath+"."+fc.Target)
		}
		for name, fc := range p.cs.FnSpecs {
			scan(fc, "fnspec:"+name)
		}
	})
	return p.gw
}

func containsIdent(text, id string) bool {
	for i := 0; i+len(id) <= len(text); i++ {
		if text[i:i+len(id)] != id {
			continue
		}
		before := i == 0 || !isIdentByte(text[i-1])
		after := i+len(id) == len(text) || !isIdentByte(text[i+len(id)])
		if before && after {
			return true
		}
	}
	return false
}

func isIdentByte(c byte) bool {
	return c == '_' || c >= '0' && c <= '9' || c >= 'a' && c <= 'z' || c >= 'A' && c <= 'Z'
}

// scratchGhostOwner: a ghost variable that exactly one function's contract writes and that this function resets in a
// hook at its entry is scratch state of that function (its value never flows in from a caller): it returns the
// owner (package path + target), or "" for ordinary ghost variables.
func (p *Prog) scratchGhostOwner(g string) string {
	ws := p.ghostWriters()[g]
	if len(ws) != 1 {
		return ""
	}
	for who := range ws {
		for _, fc := range p.cs.Funcs {
			if fc.PkgPath+"."+fc.Target != who {
				continue
			}
			for _, h := range fc.Hooks {
				if h.When != "entry" {
					continue
				}
				for _, st := range h.Stmts {
					if st.Kind == "assign" && st.Target == g && st.Index == nil {
						return who
					}
				}
			}
		}
	}
	return ""
}

func qualPath(pk *types.Package) string { return pk.Path() }

func resultTypeStrings(fn *ssa.Function) []string {
	var out []string
	rs := fn.Signature.Results()
	for i := 0; i < rs.Len(); i++ {
		out = append(out, types.TypeString(rs.At(i).Type(), qualPath))
	}
	return out
}

func paramTypeStrings(fn *ssa.Function) []string {
	var out []string
	for _, prm := range fn.Params {
		out = append(out, types.TypeString(prm.Type(), qualPath))
	}
	return out
}

func sameStrings(a, b []string) bool {
	if len(a) != len(b) {
		return false
	}
	for i := range a {
		if a[i] != b[i] {
			return false
		}
	}
	return true
}

// funcAlias: functions that were renamed since their contract was written, with the short name (package name + "." +
// recorded target) under which hooks and contracts know them. structAlias: recorded field name -> current field name
// for struct types whose fields were renamed. Both are filled by resolveRenames from contracts/signatures.json.
var funcAlias = map[*ssa.Function]string{}
var structAlias = map[*types.Struct]map[string]string{}
var typeAlias = map[string]map[string]string{} // package path -> recorded type name -> current type name

// resolveRenames makes contracts survive the renaming of an unexported function, method or struct field:
//   - a contract whose target no longer exists is attached to the only function of the same package that has no
//     contract and no recorded signature of its own (a new name) and has exactly the recorded receiver/parameter and
//     result types; closures of a renamed function follow it;
//   - a recorded field name that no longer exists in a struct with an unchanged number of fields is bound to the field
//     at the same position when that field has the recorded type and a name that was not recorded.
// Anything ambiguous is left alone (and is then reported as TARGET / GENERATE as before).
func (p *Prog) resolveRenames() {
	p.loadSignatures()
	if len(p.sigs) == 0 {
		return
	}
	// named struct types: a recorded type that no longer exists and a new, unrecorded type of the same package with the
	// same field names and the same field types (up to the type's own name) are the same type under a new name
	for _, sp := range p.ssaPkgs {
		if sp == nil || !strings.HasPrefix(sp.Pkg.Path(), p.modPath) {
			continue
		}
		pkgPath := sp.Pkg.Path()
		current := map[string]*types.Struct{}
		for _, m := range sp.Members {
			if t, ok := m.(*ssa.Type); ok {
				if st, ok := t.Type().Underlying().(*types.Struct); ok {
					current[t.Name()] = st
				}
			}
		}
		prefix := "struct:" + p.shortKey(pkgPath+".")
		for k, rs := range p.sigs {
			if !strings.HasPrefix(k, prefix) {
				continue
			}
			was := k[len(prefix):]
			if strings.Contains(was, ".") || strings.Contains(was, "/") {
				continue
			}
			if _, still := current[was]; still {
				continue
			}
			var cands []string
			for name, st := range current {
				if _, recorded := p.sigs[prefix+name]; recorded || st.NumFields() != len(rs.Params) {
					continue
				}
				same := true
				for i := 0; i < st.NumFields() && same; i++ {
					ft := types.TypeString(st.Field(i).Type(), qualPath)
					want := ""
					if i < len(rs.ParamTypes) {
						want = strings.ReplaceAll(rs.ParamTypes[i], pkgPath+"."+was, pkgPath+"."+name)
					}
					same = st.Field(i).Name() == rs.Params[i] && ft == want
				}
				if same {
					cands = append(cands, name)
				}
			}
			if len(cands) == 1 {
				if typeAlias[pkgPath] == nil {
					typeAlias[pkgPath] = map[string]string{}
				}
				typeAlias[pkgPath][was] = cands[0]
				p.sigs[prefix+cands[0]] = rs
				p.renamed = append(p.renamed, fmt.Sprintf("type %s.%s is now called %s", p.shortKey(pkgPath), was, cands[0]))
			}
		}
	}
	// methods of renamed types, and declarations that name the type
	if len(typeAlias) > 0 {
		var ks []string
		for key := range p.cs.Funcs {
			ks = append(ks, key)
		}
		sort.Strings(ks)
		for _, key := range ks {
			fc := p.cs.Funcs[key]
			base := key
			if fc.Variant != "" {
				base = strings.TrimSuffix(key, "@"+fc.Variant)
			}
			if p.funcs[base] != nil {
				continue
			}
			for was, is := range typeAlias[fc.PkgPath] {
				for _, form := range []string{"(*%s).", "(%s)."} {
					o, n := fmt.Sprintf(form, was), fmt.Sprintf(form, is)
					if !strings.Contains(fc.Target, o) {
						continue
					}
					nk := fc.PkgPath + "." + strings.Replace(strings.TrimSuffix(fc.Target, "@"+fc.Variant), o, n, 1)
					if f := p.funcs[nk]; f != nil {
						if _, has := p.cs.Funcs[nk]; !has {
							p.funcs[base] = f
							p.byFn[f] = base
							funcAlias[f] = f.Pkg.Pkg.Name() + "." + strings.TrimSuffix(fc.Target, "@"+fc.Variant)
						}
					}
				}
			}
		}
		for i := range p.cs.ClosesOnly {
			if is, ok := typeAlias[p.cs.ClosesOnly[i].PkgPath][p.cs.ClosesOnly[i].Type]; ok {
				p.cs.ClosesOnly[i].Type = is
			}
		}
		for i := range p.cs.Frozen {
			if is, ok := typeAlias[p.cs.Frozen[i].PkgPath][p.cs.Frozen[i].Type]; ok {
				p.cs.Frozen[i].Type = is
			}
		}
	}
	renamedPrefix := map[string]string{} // old full key -> new full key
	var keys []string
	for key := range p.cs.Funcs {
		keys = append(keys, key)
	}
	sort.Strings(keys)
	for _, key := range keys {
		fc := p.cs.Funcs[key]
		if fc.Variant != "" || strings.Contains(fc.Target, "$") || p.funcs[key] != nil {
			continue
		}
		rs, ok := p.sigs[p.shortKey(key)]
		if !ok || len(rs.ParamTypes) != len(rs.Params) {
			continue
		}
		var cands []*ssa.Function
		for k, f := range p.funcs {
			if f.Pkg == nil || f.Pkg.Pkg.Path() != fc.PkgPath || f.Parent() != nil {
				continue
			}
			if _, has := p.cs.Funcs[k]; has {
				continue
			}
			if _, recorded := p.sigs[p.shortKey(k)]; recorded {
				continue
			}
			if sameStrings(paramTypeStrings(f), rs.ParamTypes) && sameStrings(resultTypeStrings(f), rs.Results) {
				cands = append(cands, f)
			}
		}
		if len(cands) != 1 {
			continue
		}
		f := cands[0]
		newKey := p.byFn[f]
		renamedPrefix[key] = newKey
		p.funcs[key] = f
		p.byFn[f] = key
		funcAlias[f] = f.Pkg.Pkg.Name() + "." + fc.Target
		p.renamed = append(p.renamed, fmt.Sprintf("%s is now called %s", p.shortKey(key), f.RelString(f.Pkg.Pkg)))
	}
	// a function literal that was given a name: the contract of closure F$k is attached to the only new, contract-less
	// top-level function of the package whose parameter names are exactly the closure's recorded parameters and
	// captured variables (they became parameters)
	for _, key := range keys {
		fc := p.cs.Funcs[key]
		if fc.Variant != "" || !strings.Contains(fc.Target, "$") || p.funcs[key] != nil {
			continue
		}
		rs, ok := p.sigs[p.shortKey(key)]
		if !ok {
			continue
		}
		want := map[string]bool{}
		for _, n := range rs.Params {
			want[n] = true
		}
		for _, n := range rs.FreeVars {
			want[n] = true
		}
		if len(want) == 0 {
			continue
		}
		var cands []*ssa.Function
		for k, f := range p.funcs {
			if f.Pkg == nil || f.Pkg.Pkg.Path() != fc.PkgPath || f.Parent() != nil || len(f.Params) != len(want) {
				continue
			}
			if _, has := p.cs.Funcs[k]; has {
				continue
			}
			if _, recorded := p.sigs[p.shortKey(k)]; recorded {
				continue
			}
			all := true
			for _, prm := range f.Params {
				all = all && want[prm.Name()]
			}
			if all {
				cands = append(cands, f)
			}
		}
		if len(cands) == 1 {
			f := cands[0]
			p.funcs[key] = f
			p.byFn[f] = key
			funcAlias[f] = f.Pkg.Pkg.Name() + "." + fc.Target
			p.renamed = append(p.renamed, fmt.Sprintf("function literal %s is now the function %s", p.shortKey(key), f.RelString(f.Pkg.Pkg)))
		}
	}
	// closures of renamed functions
	for oldKey, newKey := range renamedPrefix {
		for k, f := range p.funcs {
			if strings.HasPrefix(k, newKey+"$") {
				ok2 := oldKey + k[len(newKey):]
				if _, taken := p.funcs[ok2]; !taken {
					p.funcs[ok2] = f
					p.byFn[f] = ok2
					funcAlias[f] = f.Pkg.Pkg.Name() + "." + oldKey[len(f.Pkg.Pkg.Path())+1:] + k[len(newKey):]
				}
			}
		}
	}
	// struct fields
	for _, sp := range p.ssaPkgs {
		if sp == nil || !strings.HasPrefix(sp.Pkg.Path(), p.modPath) {
			continue
		}
		for _, m := range sp.Members {
			t, ok := m.(*ssa.Type)
			if !ok {
				continue
			}
			st, ok := t.Type().Underlying().(*types.Struct)
			if !ok {
				continue
			}
			rs, ok := p.sigs["struct:"+p.shortKey(sp.Pkg.Path()+"."+t.Name())]
			if !ok || len(rs.Params) != st.NumFields() {
				continue
			}
			current, recorded := map[string]bool{}, map[string]bool{}
			for i := 0; i < st.NumFields(); i++ {
				current[st.Field(i).Name()] = true
				recorded[rs.Params[i]] = true
			}
			for i := 0; i < st.NumFields(); i++ {
				was, is := rs.Params[i], st.Field(i).Name()
				if was == is || current[was] || recorded[is] {
					continue
				}
				if i < len(rs.ParamTypes) && types.TypeString(st.Field(i).Type(), qualPath) != rs.ParamTypes[i] {
					continue
				}
				if structAlias[st] == nil {
					structAlias[st] = map[string]string{}
				}
				structAlias[st][was] = is
				p.renamed = append(p.renamed, fmt.Sprintf("field %s.%s is now called %s", t.Name(), was, is))
			}
		}
	}
	// declarations that name a field
	fix := func(list []ClosesOnly) {
		for i := range list {
			if t := p.resolveType(list[i].PkgPath, list[i].Type); t != nil {
				if st, ok := t.Underlying().(*types.Struct); ok {
					if now, ok := structAlias[st][list[i].Field]; ok {
						list[i].Field = now
					}
				}
			}
		}
	}
	fix(p.cs.ClosesOnly)
	fix(p.cs.Frozen)
}

func replaceIdent(text, id, with string) string {
	var b strings.Builder
	for i := 0; i < len(text); {
		if strings.HasPrefix(text[i:], id) {
			before := i == 0 || !isIdentByte(text[i-1])
			after := i+len(id) == len(text) || !isIdentByte(text[i+len(id)])
			if before && after {
				b.WriteString(with)
				i += len(id)
				continue
			}
		}
		b.WriteByte(text[i])
		i++
	}
	return b.String()
}

// recordedAsParam: name was a parameter (and not a captured variable) of fn when its contract was written, and is no
// longer the name of one of its parameters.
func (p *Prog) recordedAsParam(fn *ssa.Function, name string) bool {
	if fn == nil {
		return false
	}
	p.loadSignatures()
	rs, ok := p.sigs[p.funcKey(fn)]
	if !ok {
		return false
	}
	was := false
	for _, n := range rs.Params {
		was = was || n == name
	}
	for _, n := range rs.FreeVars {
		if n == name {
			return false
		}
	}
	if !was {
		return false
	}
	for _, prm := range fn.Params {
		if prm.Name() == name {
			return false
		}
	}
	return true
}
