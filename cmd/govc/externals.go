package main

// Builtins, trusted contracts of standard-library / third-party functions, and the rounded-real
// float model. Everything here is part of the trusted base and is listed in evidence.

import (
	"fmt"
	"go/token"
	"go/types"
	"sort"
	"strings"

	"golang.org/x/tools/go/ssa"
)

func (e *Enc) callBuiltin(ci ssa.CallInstruction, c *ssa.CallCommon, b *ssa.Builtin, args []Term) ([]Term, error) {
	for i := range args {
		e.argTerm(c, args, i)
	}
	switch b.Name() {
	case "len":
		a := args[0]
		switch a.Sort {
		case SSlice:
			return []Term{App(SInt, "slen", a)}, nil
		case SString:
			return []Term{App(SInt, "str.len", a)}, nil
		}
		if mt, ok := c.Args[0].Type().Underlying().(*types.Map); ok {
			e.sc.DeclareFun("maplen", []string{ArraySort(e.tr.sortOf(mt.Key()), SBool)}, SInt)
			d := e.lookup(e.cur, e.mapDomHeap(mt), e.mapDomSort(mt))
			r := App(SInt, "maplen", Select(d, a))
			e.sc.Assert(Implies(e.curGuard, App(SBool, ">=", r, IntLit(0))))
			return []Term{Ite(Eq(a, IntLit(0)), IntLit(0), r)}, nil
		}
		if _, ok := c.Args[0].Type().Underlying().(*types.Chan); ok {
			r := e.fresh("chanlen", SInt)
			e.sc.Assert(App(SBool, ">=", r, IntLit(0)))
			return []Term{r}, nil
		}
		e.unsupported("len of %s", c.Args[0].Type())
	case "cap":
		r := e.fresh("cap", SInt)
		if args[0].Sort == SSlice {
			e.sc.Assert(App(SBool, ">=", r, App(SInt, "slen", args[0])))
		}
		return []Term{r}, nil
	case "append":
		return e.builtinAppend(ci, c, args)
	case "close":
		e.oblige("SAFE.close", "", nil, Not(Eq(args[0], IntLit(0))), "close of nil channel", ci.Pos())
		e.onClose(ci, c, args[0])
		return nil, nil
	case "recover":
		if e.fc == nil || !e.fc.Recovers {
			e.unsupported("recover() in a function without a `recovers` contract")
		}
		already := e.lookup(e.cur, "G$recovered", SBool)
		v := Ite(And(e.panicking, Not(already)), e.panicVal, T("(mkiface 0 0)", SIface))
		e.set(e.cur, "G$recovered", TTrue)
		return []Term{v}, nil
	case "panic":
		e.raise(e.curGuard, args[0])
		e.pushExtra(TFalse)
		return nil, nil
	case "delete":
		mt := c.Args[0].Type().Underlying().(*types.Map)
		if types.IsInterface(mt.Key()) {
			e.hashObligation(args[1], ci.Pos(), "map key")
		}
		dn := e.mapDomHeap(mt)
		d := e.lookup(e.cur, dn, e.mapDomSort(mt))
		e.set(e.cur, dn, Store(d, args[0], Store(Select(d, args[0]), args[1], TFalse)))
		return nil, nil
	case "min", "max":
		r := args[0]
		for _, a := range args[1:] {
			if r.Sort == SReal {
				r = App(SReal, "r"+b.Name(), r, a)
			} else {
				r = App(SInt, "i"+b.Name(), r, a)
			}
		}
		return []Term{r}, nil
	case "print", "println":
		return nil, nil
	}
	e.unsupported("builtin %s", b.Name())
	return nil, nil
}

// builtinAppend models append functionally: the result is a fresh backing array holding the old
// elements followed by the new ones.
func (e *Enc) builtinAppend(ci ssa.CallInstruction, c *ssa.CallCommon, args []Term) ([]Term, error) {
	st, ok := c.Args[0].Type().Underlying().(*types.Slice)
	if !ok {
		e.unsupported("append to %s", c.Args[0].Type())
	}
	et := st.Elem()
	es := e.tr.sortOf(et)
	name := "E$" + e.tr.typeID(et)
	hs := ArraySort(SInt, ArraySort(SInt, es))
	h := e.lookup(e.cur, name, hs)
	a, b := args[0], args[1]
	if b.Sort == SString {
		e.abstracted["append([]byte, string...)"] = true
		return []Term{e.fresh("appended", SSlice)}, nil
	}
	la, lb := App(SInt, "slen", a), App(SInt, "slen", b)
	ref := e.allocRef(types.NewArray(et, 1))
	rowA, rowB := Select(h, App(SInt, "sref", a)), Select(h, App(SInt, "sref", b))
	// fast path: the appended slice comes from a literal of statically known length (variadic call)
	if n, ok := e.staticSliceLen(c.Args[1]); ok && n <= 8 {
		row := rowA
		for i := 0; i < n; i++ {
			row = Store(row, App(SInt, "+", la, IntLit(int64(i))), Select(rowB, IntLit(int64(i))))
		}
		e.set(e.cur, name, Store(h, ref, row))
		return []Term{App(SSlice, "mkslice", ref, App(SInt, "+", la, IntLit(int64(n))))}, nil
	}
	row := e.fresh("approw", ArraySort(SInt, es))
	e.sc.Assert(Implies(e.curGuard, T(fmt.Sprintf("(forall ((k Int)) (! (= (select %s k) (ite (< k %s) (select %s k) (select %s (- k %s)))) :pattern ((select %s k))))",
		row.S, la.S, rowA.S, rowB.S, la.S, row.S), SBool)))
	e.set(e.cur, name, Store(h, ref, row))
	return []Term{App(SSlice, "mkslice", ref, App(SInt, "+", la, lb))}, nil
}

// staticSliceLen: length of a slice built by `new [n]T; ...; slice t[:]` in the same function.
func (e *Enc) staticSliceLen(v ssa.Value) (int, bool) {
	s, ok := v.(*ssa.Slice)
	if !ok || s.Low != nil || s.High != nil {
		if c, isConst := v.(*ssa.Const); isConst && c.Value == nil {
			return 0, true
		}
		return 0, false
	}
	if pt, ok := s.X.Type().Underlying().(*types.Pointer); ok {
		if arr, ok := pt.Elem().Underlying().(*types.Array); ok {
			return int(arr.Len()), true
		}
	}
	return 0, false
}

func (e *Enc) onClose(ci ssa.CallInstruction, c *ssa.CallCommon, ch Term) {
	// ghost protocol: closed set
	name := "G$closedchans"
	cl := e.lookup(e.cur, name, ArraySort(SInt, SBool))
	e.oblige("SAFE.close", "", nil, Not(Select(cl, ch)), "close of closed channel", ci.Pos())
	e.set(e.cur, name, Store(cl, ch, TTrue))
}

// ---------------------------------------------------------------------------
// rounded-real model

// rnd models one IEEE-754 binary64 operation: the correctly rounded value of the exact result x.
// Each distinct exact term gets its own constant r constrained by the rounding facts (congruence
// for syntactically equal terms only: a sound over-approximation that avoids an uninterpreted
// function over mixed integer/real terms, which stalls the solvers).
func (e *Enc) rnd(x Term) Term {
	r := e.rnd0(x)
	if tc, ok := e.taintOf(x); ok {
		e.addTaint(r, tc)
	}
	return r
}

func (e *Enc) rnd0(x Term) Term {
	if r, ok := e.rndConst[x.S]; ok {
		return r
	}
	if !e.rndInit {
		e.rndInit = true
		// fp_tiny over-approximates the absolute rounding error in the subnormal range (2^-1075)
		e.sc.Declare("fp_tiny", SReal)
		e.sc.Assert(T("(and (> fp_tiny 0.0) (<= fp_tiny (/ 1.0 1000000000000000000000000000000.0)))", SBool))
		e.assumed["float64 arithmetic in the rounded-real model: every operation returns a value r with |r-x| <= 2^-53|x| + tiny of its exact result x, exact when x is an integer up to 2^53, sign-preserving; no NaN/Inf (FP.finite obligations); monotonicity instances only where a contract asks for them"] = true
	}
	e.freshCounter++
	r := e.sc.Declare(fmt.Sprintf("rnd!%d", e.freshCounter), SReal)
	e.rndConst[x.S] = r
	e.rndTerms = append(e.rndTerms, x)
	e.rndVals = append(e.rndVals, r)
	eps := "(/ 1.0 9007199254740992.0)" // 2^-53
	key := r.S + " "
	// 1. relative error
	e.sc.AssertKeyed(key, T(fmt.Sprintf("(<= (rabs (- %s %s)) (+ (* %s (rabs %s)) fp_tiny))", r.S, x.S, eps, x.S), SBool))
	// 3. exactness on integers up to 2^53 (sums, differences, conversions)
	if !strings.HasPrefix(x.S, "(* ") && !strings.HasPrefix(x.S, "(/ ") {
		e.sc.AssertKeyed(key, T(fmt.Sprintf("(=> (and (= %s (to_real (to_int %s))) (<= (rabs %s) 9007199254740992.0)) (= %s %s))", x.S, x.S, x.S, r.S, x.S), SBool))
	}
	// sign preservation and zero
	e.sc.AssertKeyed(key, T(fmt.Sprintf("(and (=> (>= %s 0.0) (>= %s 0.0)) (=> (<= %s 0.0) (<= %s 0.0)))", x.S, r.S, x.S, r.S), SBool))
	// 2. monotonicity (opt-in: quadratic): against earlier roundings, and against representable values
	// (0, 1, -1 and the integer-valued operands of this operation): rounding never crosses a float
	if e.fc != nil && e.fc.FPMonotone {
		for k, y := range e.rndTerms[:len(e.rndTerms)-1] {
			ry := e.rndVals[k]
			e.sc.AssertKeyed(key, T(fmt.Sprintf("(and (=> (<= %s %s) (<= %s %s)) (=> (<= %s %s) (<= %s %s)))", x.S, y.S, r.S, ry.S, y.S, x.S, ry.S, r.S), SBool))
		}
		reps := []string{"0.0", "1.0", "(- 1.0)"}
		reps = append(reps, representableOperands(x.S)...)
		for _, c := range reps {
			e.sc.AssertKeyed(key, T(fmt.Sprintf("(and (=> (<= %s %s) (<= %s %s)) (=> (>= %s %s) (>= %s %s)))", x.S, c, r.S, c, x.S, c, r.S, c), SBool))
			if !strings.HasPrefix(c, "(-") && c != "0.0" && c != "1.0" {
				neg := "(- " + c + ")"
				e.sc.AssertKeyed(key, T(fmt.Sprintf("(and (=> (<= %s %s) (<= %s %s)) (=> (>= %s %s) (>= %s %s)))", x.S, neg, r.S, neg, x.S, neg, r.S, neg), SBool))
			}
		}
	}
	return r
}

// ---------------------------------------------------------------------------
// externals

func (e *Enc) nonNilError() Term {
	v := e.fresh("err", SIface)
	e.sc.Assert(Not(Eq(App(SInt, "ityp", v), IntLit(0))))
	return v
}

func nilIface() Term { return T("(mkiface 0 0)", SIface) }

func (e *Enc) recvLV(c *ssa.CallCommon) LVal {
	return e.lvalOf(c.Args[0])
}

func (e *Enc) externalModNames(name string, c *ssa.CallCommon) map[string]string {
	names := map[string]string{}
	if strings.HasPrefix(name, "(*sync/atomic.") {
		m := name[strings.LastIndex(name, ".")+1:]
		if m == "Store" || m == "Add" || m == "Swap" || m == "CompareAndSwap" {
			e.staticStoreNames(c.Args[0], names)
		}
	}
	switch name {
	case "sort.Strings":
		names["E$string"] = ArraySort(SInt, ArraySort(SInt, SString))
	case "os.Setenv":
		names["G$env"] = ArraySort(SString, SString)
		names["G$envset"] = ArraySort(SString, SBool)
	case "os.Unsetenv":
		names["G$envset"] = ArraySort(SString, SBool)
	}
	return names
}

func (e *Enc) callExternal(ci ssa.CallInstruction, c *ssa.CallCommon, name string, args []Term) ([]Term, error) {
	sig := c.Signature()
	arg := func(i int) Term { return e.argTerm(c, args, i) }
	// sync.Map hashes its key: a key whose dynamic type is not comparable panics at run time
	switch name {
	case "(*sync.Map).Load", "(*sync.Map).Store", "(*sync.Map).LoadOrStore", "(*sync.Map).LoadAndDelete", "(*sync.Map).Delete",
		"(*sync.Map).Swap", "(*sync.Map).CompareAndSwap", "(*sync.Map).CompareAndDelete":
		if len(args) > 1 && arg(1).Sort == SIface {
			e.hashObligation(arg(1), ci.Pos(), "sync.Map key")
		}
	}
	// atomic cells
	if strings.HasPrefix(name, "(*sync/atomic.") {
		lv := e.recvLV(c)
		e.checkNilLV(lv, c.Args[0], ci.Pos())
		m := name[strings.LastIndex(name, ".")+1:]
		cellT := lv.cellType()
		e.onAtomic(ci, c, m, lv)
		switch m {
		case "Load":
			v := e.load(lv)
			r := e.fresh("aload", v.Sort)
			e.sc.Assert(Implies(e.curGuard, Eq(r, v)))
			e.sc.Assert(Implies(e.curGuard, e.tr.rangeAssumption(r, cellT, 0)))
			return []Term{r}, nil
		case "Store":
			e.store(lv, arg(1))
			return nil, nil
		case "Add":
			old := e.load(lv)
			nv := e.wrapAtomic(App(SInt, "+", old, arg(1)), cellT)
			e.store(lv, nv)
			return []Term{nv}, nil
		case "Swap":
			old := e.load(lv)
			r := e.fresh("aswap", old.Sort)
			e.sc.Assert(Implies(e.curGuard, Eq(r, old)))
			e.sc.Assert(Implies(e.curGuard, e.tr.rangeAssumption(r, cellT, 0)))
			e.store(lv, arg(1))
			return []Term{r}, nil
		case "CompareAndSwap":
			old := e.load(lv)
			ok := Eq(old, arg(1))
			e.store(lv, Ite(ok, arg(2), old))
			return []Term{ok}, nil
		}
	}
	for i := range args {
		arg(i)
	}
	switch name {
	// ---- time
	case "time.Now":
		r := e.fresh("now", SInt)
		e.sc.Assert(App(SBool, ">", r, IntLit(0)))
		e.assumed["time.Now returns an instant after the zero Time (trusted)"] = true
		return []Term{r}, nil
	case "(time.Time).Sub":
		e.assumed["time.Time arithmetic is exact integer nanoseconds without saturation (trusted)"] = true
		return []Term{App(SInt, "-", args[0], args[1])}, nil
	case "(time.Time).Add":
		e.assumed["time.Time arithmetic is exact integer nanoseconds without saturation (trusted)"] = true
		return []Term{App(SInt, "+", args[0], args[1])}, nil
	case "(time.Time).Before":
		return []Term{App(SBool, "<", args[0], args[1])}, nil
	case "(time.Time).After":
		return []Term{App(SBool, ">", args[0], args[1])}, nil
	case "(time.Time).Equal":
		return []Term{Eq(args[0], args[1])}, nil
	case "(time.Time).IsZero":
		return []Term{Eq(args[0], T("TIME_ZERO", SInt))}, nil
	case "(time.Time).Truncate":
		// t - (t mod d) relative to the zero time; d <= 0 returns t unchanged
		e.assumed["time.Time.Truncate(d) = t - ((t - zero) mod d) for d > 0 (trusted)"] = true
		d := args[1]
		rel := App(SInt, "-", args[0], T("TIME_ZERO", SInt))
		return []Term{Ite(App(SBool, "<=", d, IntLit(0)), args[0], App(SInt, "-", args[0], App(SInt, "mod", rel, d)))}, nil
	case "time.Since":
		r := e.fresh("since", SInt)
		return []Term{r}, nil
	case "(time.Duration).Milliseconds":
		return []Term{App(SInt, "tdiv", args[0], IntLit(1000000))}, nil
	case "(time.Duration).Nanoseconds":
		return []Term{args[0]}, nil
	case "(time.Duration).Seconds":
		// sec + nsec/1e9 computed in float64
		sec := App(SInt, "tdiv", args[0], IntLit(1000000000))
		nsec := App(SInt, "tmod", args[0], IntLit(1000000000))
		return []Term{e.rnd(App(SReal, "+", ToReal(sec), e.rnd(App(SReal, "/", ToReal(nsec), T("1000000000.0", SReal)))))}, nil
	case "(time.Duration).Round":
		r := e.fresh("dround", SInt)
		m := args[1]
		// nearest multiple of m (ties away from zero); m <= 0 returns d
		e.sc.Assert(Implies(And(e.curGuard, App(SBool, ">", m, IntLit(0))),
			And(Eq(App(SInt, "mod", r, m), IntLit(0)), App(SBool, "<=", App(SInt, "*", IntLit(2), App(SInt, "iabs", App(SInt, "-", r, args[0]))), m))))
		e.sc.Assert(Implies(And(e.curGuard, App(SBool, "<=", m, IntLit(0))), Eq(r, args[0])))
		e.assumed["time.Duration.Round(m): nearest multiple of m, no overflow (trusted)"] = true
		return []Term{r}, nil
	case "(time.Duration).String", "(time.Time).String":
		return []Term{e.fresh("str", SString)}, nil
	case "time.NewTicker":
		e.oblige("SAFE.extern", "", nil, App(SBool, ">", args[0], IntLit(0)), "time.NewTicker panics for a non-positive interval", ci.Pos())
		r := e.allocRef(types.Typ[types.Int])
		e.onNewTicker(ci, r, args[0])
		return []Term{r}, nil
	case "time.NewTimer":
		r := e.allocRef(types.Typ[types.Int])
		h := e.lookup(e.cur, "G$timerDelay", ArraySort(SInt, SInt))
		e.set(e.cur, "G$timerDelay", Store(h, r, args[0]))
		hs := e.lookup(e.cur, "G$timerStopped", ArraySort(SInt, SBool))
		e.set(e.cur, "G$timerStopped", Store(hs, r, TFalse))
		return []Term{r}, nil
	case "(*time.Ticker).Stop", "(*time.Timer).Stop":
		e.oblige("SAFE.nil", "", nil, Not(Eq(args[0], IntLit(0))), "nil ticker/timer", ci.Pos())
		hs := e.lookup(e.cur, "G$timerStopped", ArraySort(SInt, SBool))
		e.set(e.cur, "G$timerStopped", Store(hs, args[0], TTrue))
		return e.freshResults(sig), nil
	case "(*time.Ticker).Reset", "(*time.Timer).Reset":
		e.oblige("SAFE.nil", "", nil, Not(Eq(args[0], IntLit(0))), "nil ticker/timer", ci.Pos())
		e.abstracted["Ticker/Timer.Reset: not modelled (period/stopped ghost state unchanged)"] = true
		return e.freshResults(sig), nil
	case "time.Sleep":
		return nil, nil
	case "time.After":
		r := e.allocRef(types.Typ[types.Int])
		return []Term{r}, nil
	case "time.ParseDuration":
		return e.extParseDuration(args[0]), nil
	// ---- strconv / strings
	case "strconv.Atoi":
		return e.extAtoi(args[0]), nil
	case "strconv.FormatUint":
		e.sc.DeclareFun("format_uint", []string{SInt, SInt}, SString)
		return []Term{App(SString, "format_uint", args[0], args[1])}, nil
	case "strconv.ParseFloat":
		r := e.fresh("pf", SReal)
		er := e.fresh("pferr", SIface)
		return []Term{r, er}, nil
	case "strings.Contains":
		return []Term{App(SBool, "str.contains", args[0], args[1])}, nil
	case "strings.Index":
		return []Term{App(SInt, "str.indexof", args[0], args[1], IntLit(0))}, nil
	case "strings.TrimSpace":
		e.sc.DeclareFun("trim_space", []string{SString}, SString)
		return []Term{App(SString, "trim_space", args[0])}, nil
	case "strings.Split":
		// result: non-empty slice of strings (sep non-empty)
		r := e.fresh("split", SSlice)
		e.sc.Assert(Implies(e.curGuard, And(App(SBool, ">=", App(SInt, "slen", r), IntLit(1)), App(SBool, ">", App(SInt, "sref", r), IntLit(0)))))
		e.sc.Assert(Implies(e.curGuard, App(SBool, "<=", App(SInt, "sref", r), e.lookup(e.cur, "alloc", SInt))))
		e.assumed["strings.Split(s, sep) with non-empty sep returns at least one element (trusted)"] = true
		e.onSplit(ci, r, args[0], args[1])
		return []Term{r}, nil
	case "gopkg.in/yaml.v3.Unmarshal":
		// decoding into the target may write anything reachable from it (and allocate): every
		// program heap gets a fresh version; ghost state and private locals are untouched
		var names []string
		for n := range e.heapSorts {
			if strings.HasPrefix(n, "F$") || strings.HasPrefix(n, "P$") || strings.HasPrefix(n, "E$") || strings.HasPrefix(n, "M$") || strings.HasPrefix(n, "MD$") || n == "alloc" {
				names = append(names, n)
			}
		}
		sort.Strings(names)
		e.havocNames(e.cur, names)
		e.unmarshalled = true
		e.assumed["yaml.Unmarshal may store any well-typed value in any heap location (over-approximation of every YAML document, including arbitrary bytes); assumed not to panic (trusted)"] = true
		return e.freshResults(sig), nil
	case "strings.Join", "strings.ReplaceAll", "fmt.Sprintf", "fmt.Sprint", "strings.ToLower":
		return []Term{e.fresh("str", SString)}, nil
	// ---- errors / fmt
	case "fmt.Errorf", "errors.New":
		return []Term{e.nonNilError()}, nil
	case "(*log/slog.Logger).With", "(*log/slog.Logger).WithGroup", "log/slog.New", "log/slog.Default":
		// documented: these return a (new) logger, never nil
		rs := e.freshResults(sig)
		if len(rs) == 1 {
			e.sc.Assert(Implies(e.curGuard, Not(Eq(rs[0], IntLit(0)))))
			alloc := e.lookup(e.cur, "alloc", SInt)
			e.sc.Assert(Implies(e.curGuard, App(SBool, "<=", rs[0], alloc)))
		}
		return rs, nil
	case "errors.Join":
		// nil exactly when every joined error is nil (documented behaviour); the elements are read from the argument slice
		r := e.fresh("joined", SIface)
		if len(args) == 1 && args[0].Sort == SSlice {
			et := c.Args[0].Type().Underlying().(*types.Slice).Elem()
			h := e.lookup(e.cur, "E$"+e.tr.typeID(et), ArraySort(SInt, ArraySort(SInt, e.tr.sortOf(et))))
			ref, ln := App(SInt, "sref", args[0]), App(SInt, "slen", args[0])
			qv := e.fresh("jk", SInt)
			allNil := T(fmt.Sprintf("(forall ((%s Int)) (=> (and (<= 0 %s) (< %s %s)) (= (select (select %s %s) %s) (mkiface 0 0))))", qv.S+"q", qv.S+"q", qv.S+"q", ln.S, h.S, ref.S, qv.S+"q"), SBool)
			e.sc.Assert(Implies(e.curGuard, Eq(Eq(r, nilIface()), allNil)))
			e.assumed["errors.Join returns nil exactly when every joined error is nil (trusted, documented)"] = true
		}
		return []Term{r}, nil
	case "errors.Is":
		// errors.Is(err, target): true when err == target; trusted: only the sentinel itself (or a wrapper of it) matches
		e.sc.DeclareFun("errors_is", []string{SIface, SIface}, SBool)
		r := App(SBool, "errors_is", args[0], args[1])
		e.sc.Assert(Implies(Eq(args[0], args[1]), Or(r, Eq(args[0], nilIface()))))
		e.sc.Assert(Implies(Eq(args[0], nilIface()), Not(r)))
		e.sc.Assert(Implies(r, Eq(args[0], args[1])))
		e.assumed["errors.Is(err, target) holds exactly when err == target: the only target in scope is the unexported sentinel errFailNow, which nothing wraps or impersonates (trusted)"] = true
		return []Term{r}, nil
	// ---- math
	case "math.Floor":
		return []Term{ToReal(App(SInt, "to_int", args[0]))}, nil
	case "math.Ceil":
		return []Term{ToReal(App(SInt, "rceil", args[0]))}, nil
	case "math.Trunc":
		return []Term{ToReal(App(SInt, "rtrunc", args[0]))}, nil
	case "math.Round":
		// half away from zero
		x := args[0]
		r := Ite(App(SBool, ">=", x, T("0.0", SReal)),
			App(SInt, "to_int", App(SReal, "+", x, T("0.5", SReal))),
			App(SInt, "-", App(SInt, "to_int", App(SReal, "+", App(SReal, "-", x), T("0.5", SReal)))))
		return []Term{ToReal(r)}, nil
	case "math.Max", "math.Min":
		fn := "max"
		if name == "math.Min" {
			fn = "min"
		}
		if wa, ok := intWitness(args[0]); ok {
			if wb, ok := intWitness(args[1]); ok {
				return []Term{App(SReal, "to_real", App(SInt, "i"+fn, wa, wb))}, nil
			}
		}
		return []Term{App(SReal, "r"+fn, args[0], args[1])}, nil
	case "math.Abs":
		return []Term{App(SReal, "rabs", args[0])}, nil
	case "math.Cos":
		r := e.fresh("cos", SReal)
		e.sc.Assert(And(App(SBool, "<=", T("(- 1.0)", SReal), r), App(SBool, "<=", r, T("1.0", SReal))))
		e.assumed["math.Cos returns a value in [-1,1] (trusted)"] = true
		return []Term{r}, nil
	case "math.Exp":
		e.sc.DeclareFun("fexp", []string{SReal}, SReal)
		r := App(SReal, "fexp", args[0])
		e.sc.Assert(App(SBool, ">=", r, T("0.0", SReal)))
		e.sc.Assert(Implies(App(SBool, "<=", args[0], T("0.0", SReal)), App(SBool, "<=", r, T("1.0", SReal))))
		for _, y := range e.expArgs {
			e.sc.Assert(T(fmt.Sprintf("(and (=> (<= %s %s) (<= (fexp %s) (fexp %s))) (=> (<= %s %s) (<= (fexp %s) (fexp %s))))", args[0].S, y.S, args[0].S, y.S, y.S, args[0].S, y.S, args[0].S), SBool))
		}
		e.expArgs = append(e.expArgs, args[0])
		e.assumed["math.Exp is non-negative, at most 1 for non-positive arguments, and monotone (trusted; underflow to 0 allowed)"] = true
		return []Term{r}, nil
	case "math.Erfc":
		e.sc.DeclareFun("ferfc", []string{SReal}, SReal)
		r := App(SReal, "ferfc", args[0])
		e.sc.Assert(And(App(SBool, "<=", T("0.0", SReal), r), App(SBool, "<=", r, T("2.0", SReal))))
		e.assumed["math.Erfc has range [0,2] (trusted)"] = true
		return []Term{r}, nil
	case "math/rand.Float64":
		r := e.fresh("rand", SReal)
		e.sc.Assert(And(App(SBool, "<=", T("0.0", SReal), r), App(SBool, "<", r, T("1.0", SReal))))
		e.assumed["rand.Float64 returns a value in [0,1) (trusted)"] = true
		return []Term{r}, nil
	case "math/rand.Intn":
		e.oblige("SAFE.extern", "", nil, App(SBool, ">", args[0], IntLit(0)), "rand.Intn panics for n <= 0", ci.Pos())
		r := e.fresh("randn", SInt)
		e.sc.Assert(Implies(e.curGuard, And(App(SBool, "<=", IntLit(0), r), App(SBool, "<", r, args[0]))))
		return []Term{r}, nil
	// ---- context
	case "context.WithCancel", "context.WithTimeout", "context.WithDeadline":
		ctx := e.fresh("ctx", SIface)
		e.sc.Assert(Not(Eq(App(SInt, "ityp", ctx), IntLit(0))))
		cancel := e.fresh("cancel", SInt)
		e.sc.Assert(App(SBool, ">", cancel, IntLit(0)))
		e.onContext(ci, name, ctx, cancel, args)
		return []Term{ctx, cancel}, nil
	case "context.Background":
		ctx := e.fresh("ctx", SIface)
		e.sc.Assert(Not(Eq(App(SInt, "ityp", ctx), IntLit(0))))
		return []Term{ctx}, nil
	// ---- sync
	case "sync.NewCond":
		r := e.allocRef(types.Typ[types.Int])
		return []Term{r}, nil
	case "invoke:sync.Locker.Lock", "invoke:sync.Locker.Unlock":
		// a Locker held in an interface (sync.Cond.L): the lock is identified by the pointer inside the interface
		nm := "(*sync.Mutex).Lock"
		if strings.HasSuffix(name, "Unlock") {
			nm = "(*sync.Mutex).Unlock"
		}
		e.onSync(ci, nm, []Term{App(SInt, "ival", args[0])})
		return nil, nil
	case "(*sync.Mutex).Lock", "(*sync.Mutex).Unlock", "(*sync.RWMutex).Lock", "(*sync.RWMutex).Unlock",
		"(*sync.RWMutex).RLock", "(*sync.RWMutex).RUnlock", "(*sync.Cond).Wait", "(*sync.Cond).Broadcast", "(*sync.Cond).Signal",
		"(*sync.WaitGroup).Add", "(*sync.WaitGroup).Done", "(*sync.WaitGroup).Wait":
		e.onSync(ci, name, args)
		return nil, nil
	// ---- os
	case "os.Setenv":
		env := e.lookup(e.cur, "G$env", ArraySort(SString, SString))
		set := e.lookup(e.cur, "G$envset", ArraySort(SString, SBool))
		// succeeds exactly for valid arguments (non-empty key without '=' or NUL, value without NUL): a
		// fixed function of the arguments
		e.sc.DeclareFun("setenv_ok", []string{SString, SString}, SBool)
		ok := App(SBool, "setenv_ok", args[0], args[1])
		e.assumed["os.Setenv succeeds or fails as a fixed function of its arguments; os.Unsetenv always succeeds (unix) (trusted)"] = true
		e.set(e.cur, "G$env", Ite(ok, Store(env, args[0], args[1]), env))
		e.set(e.cur, "G$envset", Ite(ok, Store(set, args[0], TTrue), set))
		er := e.fresh("err", SIface)
		e.sc.Assert(Eq(ok, Eq(er, nilIface())))
		return []Term{er}, nil
	case "os.Unsetenv":
		set := e.lookup(e.cur, "G$envset", ArraySort(SString, SBool))
		// unix: the variable is always removed and the error is nil; the error value is left
		// unconstrained so that the caller's error branch stays reachable in the model
		e.set(e.cur, "G$envset", Store(set, args[0], TFalse))
		er := e.fresh("err", SIface)
		return []Term{er}, nil
	}
	// default: unconstrained results; effect-free for libraries known not to write through their
	// arguments, otherwise the elements of every slice argument may have been overwritten
	if !nonMutatingExternal(name) {
		off := 0
		if c.IsInvoke() {
			off = 1
		}
		for i, a := range c.Args {
			if sl, ok := a.Type().Underlying().(*types.Slice); ok {
				hn := "E$" + e.tr.typeID(sl.Elem())
				hs := ArraySort(SInt, ArraySort(SInt, e.tr.sortOf(sl.Elem())))
				h := e.lookup(e.cur, hn, hs)
				e.set(e.cur, hn, Store(h, App(SInt, "sref", args[i+off]), e.fresh("row", ArraySort(SInt, e.tr.sortOf(sl.Elem())))))
			}
		}
		e.abstracted["external call "+name+": may overwrite the elements of its slice arguments; results unconstrained (may alias arguments); assumed not to panic"] = true
		return e.freshResults(sig), nil
	}
	e.abstracted["external call "+name+": no effect on modelled state, results unconstrained, assumed not to panic"] = true
	return e.freshResults(sig), nil
}

func (e *Enc) wrapAtomic(t Term, cellT types.Type) Term {
	lo, hi, ok := intRange(cellT)
	if !ok {
		return t
	}
	if lo == "0" {
		return App(SInt, "mod", t, T(incDec(hi), SInt))
	}
	e.assumed["atomic signed counters do not overflow (treated as mathematical)"] = true
	return t
}

// strconv.Atoi on SMT strings: optional sign followed by decimal digits, value within int64.
func (e *Enc) declareStringSpecs() {
	e.sc.Raw(`(define-fun atoi_ok ((s String)) Bool (or (and (str.in_re s (re.+ (re.range "0" "9")))) (and (>= (str.len s) 2) (or (= (str.at s 0) "-") (= (str.at s 0) "+")) (str.in_re (str.substr s 1 (- (str.len s) 1)) (re.+ (re.range "0" "9"))))))`)
	e.sc.Raw(`(define-fun atoi_val ((s String)) Int (ite (= (str.at s 0) "-") (- (str.to_int (str.substr s 1 (- (str.len s) 1)))) (ite (= (str.at s 0) "+") (str.to_int (str.substr s 1 (- (str.len s) 1))) (str.to_int s))))`)
	e.sc.Raw(`(define-fun pd_syntax ((s String)) Bool (or (= s "0") (= s "+0") (= s "-0") (str.in_re s (re.++ (re.opt (re.union (str.to_re "-") (str.to_re "+"))) (re.+ (re.++ (re.union (re.++ (re.+ (re.range "0" "9")) (re.opt (re.++ (str.to_re ".") (re.* (re.range "0" "9"))))) (re.++ (str.to_re ".") (re.+ (re.range "0" "9")))) (re.union (str.to_re "ns") (str.to_re "us") (str.to_re "\u{c2}\u{b5}s") (str.to_re "\u{ce}\u{bc}s") (str.to_re "ms") (str.to_re "s") (str.to_re "m") (str.to_re "h"))))))))`)
	e.sc.DeclareFun("pd_val", []string{SString}, SInt)
	e.sc.DeclareFun("pd_overflow", []string{SString}, SBool)
	e.assumed["Go strings are modelled as SMT strings with one character per byte (code points 0..255)"] = true
}

func (e *Enc) extAtoi(s Term) []Term {
	e.declareStringSpecs()
	e.sc.Raw(`(define-fun atoi_ok ((s String)) Bool (or (and (str.in_re s (re.+ (re.range "0" "9")))) (and (>= (str.len s) 2) (or (= (str.at s 0) "-") (= (str.at s 0) "+")) (str.in_re (str.substr s 1 (- (str.len s) 1)) (re.+ (re.range "0" "9"))))))`)
	e.sc.Raw(`(define-fun atoi_val ((s String)) Int (ite (= (str.at s 0) "-") (- (str.to_int (str.substr s 1 (- (str.len s) 1)))) (ite (= (str.at s 0) "+") (str.to_int (str.substr s 1 (- (str.len s) 1))) (str.to_int s))))`)
	okSyntax := App(SBool, "atoi_ok", s)
	val := App(SInt, "atoi_val", s)
	inRange := And(App(SBool, "<=", IntLitS("-9223372036854775808"), val), App(SBool, "<=", val, IntLitS("9223372036854775807")))
	ok := And(okSyntax, inRange)
	r := e.fresh("atoi", SInt)
	er := e.fresh("atoierr", SIface)
	e.sc.Assert(Implies(e.curGuard, Eq(Eq(er, nilIface()), ok)))
	e.sc.Assert(Implies(And(e.curGuard, ok), Eq(r, val)))
	e.sc.Assert(Implies(e.curGuard, e.tr.rangeAssumption(r, types.Typ[types.Int], 0)))
	e.assumed["strconv.Atoi accepts exactly [+-]?[0-9]+ within int64 and returns its value (trusted; underscores are rejected in base-10 Atoi)"] = true
	return []Term{r, er}
}

// time.ParseDuration: regular success domain; value uninterpreted function of the string.
func (e *Enc) extParseDuration(s Term) []Term {
	e.declareStringSpecs()
	ok := And(App(SBool, "pd_syntax", s), Not(App(SBool, "pd_overflow", s)))
	r := e.fresh("pd", SInt)
	er := e.fresh("pderr", SIface)
	e.sc.Assert(Implies(e.curGuard, Eq(Eq(er, nilIface()), ok)))
	e.sc.Assert(Implies(And(e.curGuard, ok), Eq(r, App(SInt, "pd_val", s))))
	e.sc.Assert(Implies(And(e.curGuard, Not(ok)), Eq(r, IntLit(0))))
	e.sc.Assert(Implies(e.curGuard, e.tr.rangeAssumption(r, types.Typ[types.Int64], 0)))
	e.assumed["time.ParseDuration succeeds exactly on the documented grammar (minus overflow) and otherwise returns 0 and an error; its value is an uninterpreted function of the string (trusted, audited by sampling in the thorough tier)"] = true
	return []Term{r, er}
}

func (e *Enc) onSplit(ci ssa.CallInstruction, r, s, sep Term) {}

func (e *Enc) onNewTicker(ci ssa.CallInstruction, r, d Term) {
	h := e.lookup(e.cur, "G$tickerPeriod", ArraySort(SInt, SInt))
	e.set(e.cur, "G$tickerPeriod", Store(h, r, d))
	hs := e.lookup(e.cur, "G$timerStopped", ArraySort(SInt, SBool))
	e.set(e.cur, "G$timerStopped", Store(hs, r, TFalse))
}

func (e *Enc) onContext(ci ssa.CallInstruction, name string, ctx, cancel Term, args []Term) {}

func (e *Enc) onAtomic(ci ssa.CallInstruction, c *ssa.CallCommon, method string, lv LVal) {}

// onSync: ghost lock set (held locks are tracked per address as L$held).
func (e *Enc) onSync(ci ssa.CallInstruction, name string, args []Term) {
	held := e.lookup(e.cur, "L$held", ArraySort(SInt, SInt))
	a := args[0]
	if a.S == "ADDR" && ci != nil {
		a = e.argTerm(ci.Common(), args, 0)
	}
	pos := token.NoPos
	if ci != nil {
		pos = ci.Pos()
	}
	switch name {
	case "(*sync.Mutex).Lock", "(*sync.RWMutex).Lock":
		// lock discipline: acquiring a mutex this thread already holds (in any mode) deadlocks
		e.oblige("PROTO", "lock.not-held", nil, Eq(Select(held, a), IntLit(0)), "Lock of a mutex this thread already holds", pos)
		e.set(e.cur, "L$held", Store(held, a, IntLit(2)))
	case "(*sync.RWMutex).RLock":
		// read-locking under one's own write lock always deadlocks; recursive read locking deadlocks when a
		// writer arrives in between, i.e. in functions declared `contended`
		if e.fc != nil && e.fc.Contended {
			e.oblige("PROTO", "lock.not-held", nil, Eq(Select(held, a), IntLit(0)), "RLock of a mutex this thread already holds, in a function that runs concurrently with writers", pos)
		} else {
			e.oblige("PROTO", "lock.not-held", nil, Not(Eq(Select(held, a), IntLit(2))), "RLock of a mutex this thread holds for writing", pos)
		}
		e.set(e.cur, "L$held", Store(held, a, IntLit(1)))
	case "(*sync.Mutex).Unlock", "(*sync.RWMutex).Unlock":
		e.oblige("SAFE", "unlock", nil, Eq(Select(held, a), IntLit(2)), "Unlock of a mutex not write-locked by this thread", pos)
		e.set(e.cur, "L$held", Store(held, a, IntLit(0)))
	case "(*sync.RWMutex).RUnlock":
		e.oblige("SAFE", "runlock", nil, Eq(Select(held, a), IntLit(1)), "RUnlock of a mutex not read-locked by this thread", pos)
		e.set(e.cur, "L$held", Store(held, a, IntLit(0)))
	case "(*sync.Cond).Wait":
		// Wait unlocks c.L, sleeps and locks it again: the caller must hold it (unlocking an unlocked mutex is fatal)
		if ci != nil {
			if pt, ok := ci.Common().Args[0].Type().Underlying().(*types.Pointer); ok {
				if st, ok := pt.Elem().Underlying().(*types.Struct); ok {
					for k := 0; k < st.NumFields(); k++ {
						if st.Field(k).Name() == "L" {
							l := e.loadPtr(e.cur, App(SInt, "+", a, IntLit(int64(k+1))), st.Field(k).Type())
							e.oblige("SAFE", "cond-wait", nil, Eq(Select(held, App(SInt, "ival", l)), IntLit(2)), "Cond.Wait without holding the condition's lock", pos)
						}
					}
				}
			}
		}
	}
}

// nonMutatingExternal: library functions that do not write through slice arguments.
func nonMutatingExternal(name string) bool {
	n := strings.TrimPrefix(name, "invoke:")
	n = strings.TrimLeft(n, "(*")
	for _, p := range []string{"fmt.", "strings.", "strconv.", "log/slog.", "errors.", "github.com/sirupsen/logrus.", "time.", "math.", "math/rand.",
		"context.", "github.com/prometheus/client_golang/", "github.com/stretchr/testify/", "os.", "runtime/debug.", "regexp.", "sync.", "sync/atomic.",
		"github.com/spf13/", "github.com/mattn/go-isatty.", "text/template.", "path/filepath.", "io.", "error.", "github.com/form3tech-oss/f1/v2/internal/xtime."} {
		if strings.HasPrefix(n, p) {
			return true
		}
	}
	return false
}

// representableOperands: the (to_real k) operands of an arithmetic term — integer-valued floats
// (exactly representable: their magnitude is covered by FP.exact obligations).
func representableOperands(x string) []string {
	var out []string
	seen := map[string]bool{}
	for i := 0; i+9 <= len(x); i++ {
		if x[i:i+9] == "(to_real " {
			t := readSexp(x[i:])
			if !seen[t] {
				seen[t] = true
				out = append(out, t)
			}
		}
	}
	return out
}
