package main

// Lemmas (pure SMT goals over spec functions), property explanations, extra coverage hooks.

import (
	"encoding/json"
	"fmt"
	"go/token"
	"go/types"
	"os"
	"path/filepath"
	"strings"
	"sync"

	"golang.org/x/tools/go/ssa"
)

// lemmaObligation turns a lemma into one obligation: hyps ==> goal over universally quantified vars.
func (p *Prog) lemmaObligation(lm *Lemma) ([]*Obligation, error) {
	sc := NewScript()
	e := &Enc{prog: p, sc: sc, tr: newTypeReg(p.modPath, sc), heapSorts: map[string]string{}, allocBefore: map[int]Term{},
		counters: map[string]int{}, assumed: map[string]bool{}, abstracted: map[string]bool{}, rndSeen: map[string]bool{}, fnIDs: map[string]int{},
		typedSeen: map[string]bool{}, rndConst: map[string]Term{}, purified: map[string]Term{}, hookHit: map[string]bool{}, usedContracts: map[string]bool{}, key: "lemma." + lm.Name}
	st := e.newFreshState()
	e.entryStateID = st.id
	se := &specEnv{e: e, old: st, cur: st, binds: map[string]specVal{}, noLocal: true, pkg: p.typesPkg(lm.PkgPath)}
	for _, v := range lm.Vars {
		srt, err := ghostSort(v.Type)
		if err != nil {
			return nil, fmt.Errorf("%s:%d: %v", lm.File, lm.Line, err)
		}
		se.binds[v.Name] = specVal{t: sc.Declare("lv_"+v.Name, srt)}
	}
	for _, h := range lm.Hyps {
		t, err := se.evalBool(h.Expr)
		if err != nil {
			return nil, fmt.Errorf("%s:%d: %v", h.File, h.Line, err)
		}
		sc.AssertNamed(t, "hypothesis "+h.Text)
	}
	g, err := se.evalBool(lm.Goal.Expr)
	if err != nil {
		return nil, fmt.Errorf("%s:%d: %v", lm.Goal.File, lm.Goal.Line, err)
	}
	ob := &Obligation{Name: "lemma." + lm.Name + "/goal", Class: "lemma", Props: lm.Props, Goal: g, Desc: "lemma: " + lm.Goal.Text,
		Pos: fmt.Sprintf("%s:%d", relPath(p.verifDir, lm.File), lm.Line), Expect: "unsat", FuncKey: "lemma." + lm.Name, Script: sc, cutDecls: -1, cutAsserts: -1}
	cov := &Obligation{Name: "lemma." + lm.Name + "/COVER.hyps", Class: "COVER", Props: lm.Props, Goal: TTrue, Expect: "sat", FuncKey: "lemma." + lm.Name,
		Script: sc, Desc: "lemma hypotheses are satisfiable", cutDecls: -1, cutAsserts: -1}
	return []*Obligation{ob, cov}, nil
}

// globalInvObligations verifies the package initialiser against the package's global invariants and
// checks that no other function of the module stores to a package-level variable of that package.
func (p *Prog) globalInvObligations(pkgPath string, invs []Clause, prop string) ([]*Obligation, funcInfo, error) {
	var sp *ssa.Package
	for _, x := range p.ssaPkgs {
		if x != nil && x.Pkg.Path() == pkgPath {
			sp = x
		}
	}
	if sp == nil {
		return nil, funcInfo{}, fmt.Errorf("globalinv: package %s not loaded", pkgPath)
	}
	initFn := sp.Func("init")
	sk := p.shortKey(pkgPath) + ".init"
	fc := &FuncContract{Target: "init", PkgPath: pkgPath, Props: []string{prop}, LoopInv: map[int][]Clause{}, Unreach: map[int]bool{}, ModAll: true}
	for _, cl := range invs {
		c := cl
		c.Kind = "ensures"
		if c.Label == "" {
			c.Label = fmt.Sprintf("globalinv%d", len(fc.Ensures))
		}
		fc.Ensures = append(fc.Ensures, c)
	}
	enc := p.newEnc(initFn, fc, sk)
	if err := enc.Run(); err != nil {
		return nil, funcInfo{}, err
	}
	var out []*Obligation
	for _, ob := range enc.obls {
		if ob.Class == "ensures" || ob.Class == "COVER" && strings.HasSuffix(ob.Name, "COVER.exit") {
			ob.Props = []string{prop}
			out = append(out, ob)
		}
	}
	// writers of the package's globals outside init
	for key, fn := range p.funcs {
		if fn == initFn || fn.Pkg == nil {
			continue
		}
		for _, b := range fn.Blocks {
			for _, ins := range b.Instrs {
				st, ok := ins.(*ssa.Store)
				if !ok {
					continue
				}
				if g, ok := st.Addr.(*ssa.Global); ok && g.Pkg == sp && !strings.HasPrefix(g.Name(), "init$") {
					mentioned := false
					for _, cl := range invs {
						if strings.Contains(cl.Text, g.Name()) {
							mentioned = true
						}
					}
					if mentioned {
						out = append(out, &Obligation{Name: sk + "/GLOBAL.frame." + g.Name(), Class: "FRAME", Props: []string{prop}, Expect: "unsat", Status: "failed",
							Desc:    "package-level variable " + g.Name() + " (subject of a global invariant) is written outside init, in " + p.shortKey(key),
							FuncKey: sk, Result: SolverResult{Solver: "govc", Answer: "global-written"}})
					}
				}
			}
		}
	}
	out = append(out, &Obligation{Name: sk + "/GLOBAL.frame", Class: "FRAME", Props: []string{prop}, Expect: "unsat", Status: "discharged",
		Desc:    "no function other than init stores to the package-level variables named in the global invariants (scan of every function in the module)",
		FuncKey: sk, Result: SolverResult{Solver: "govc-structural", Answer: "unsat"}})
	src, h := p.funcSource(initFn)
	return out, funcInfo{Key: sk, Source: src, Hash: h, Obls: len(out)}, nil
}

// closesOnlyObligation scans every function of the module for a send on the declared channel field.
func (p *Prog) closesOnlyObligation(co ClosesOnly, prop string) *Obligation {
	name := p.shortKey(co.PkgPath) + "." + co.Type + "." + co.Field + "/FRAME.closes-only"
	ob := &Obligation{Name: name, Class: "FRAME", Props: []string{prop}, Expect: "unsat", Status: "discharged", FuncKey: name,
		Desc:   "no send statement (or select send arm) anywhere in the module targets the channel field " + co.Type + "." + co.Field,
		Result: SolverResult{Solver: "govc-structural", Answer: "unsat"}}
	isField := func(v ssa.Value) bool {
		u, ok := v.(*ssa.UnOp)
		if !ok {
			return false
		}
		fa, ok := u.X.(*ssa.FieldAddr)
		if !ok {
			return false
		}
		n, ok := derefType(fa.X.Type()).(*types.Named)
		if !ok || n.Obj().Pkg() == nil || n.Obj().Pkg().Path() != co.PkgPath || n.Obj().Name() != co.Type {
			return false
		}
		return n.Underlying().(*types.Struct).Field(fa.Field).Name() == co.Field
	}
	for key, fn := range p.funcs {
		for _, b := range fn.Blocks {
			for _, ins := range b.Instrs {
				switch x := ins.(type) {
				case *ssa.Send:
					if isField(x.Chan) {
						ob.Status = "failed"
						ob.Result = SolverResult{Solver: "govc", Answer: "send-found"}
						ob.Desc += "; send found in " + p.shortKey(key)
					}
				case *ssa.Select:
					for _, st := range x.States {
						if st.Dir == types.SendOnly && isField(st.Chan) {
							ob.Status = "failed"
							ob.Result = SolverResult{Solver: "govc", Answer: "send-found"}
							ob.Desc += "; select send arm found in " + p.shortKey(key)
						}
					}
				}
			}
		}
	}
	return ob
}

func propertyExplanation(prop string) string {
	if s, ok := propertyNotes[prop]; ok {
		return s
	}
	// the per-property statement of what is proved and what is assumed lives next to the manifest generator
	for _, dir := range []string{os.Getenv("GOVC_VERIF_DIR"), "/verif", "."} {
		if dir == "" {
			continue
		}
		data, err := os.ReadFile(filepath.Join(dir, "tools", "claimed.json"))
		if err != nil {
			continue
		}
		var m map[string]struct {
			Text string `json:"text"`
			Note string `json:"note"`
		}
		if json.Unmarshal(data, &m) == nil {
			if c, ok := m[prop]; ok && c.Text != "" {
				return c.Text + " || Not decided / assumed: " + c.Note
			}
		}
		break
	}
	return "Contracts on the functions listed under functions_under_contract; every obligation generated from the current go/ssa of /repo and discharged by SMT. See DESIGN.md §3 " + prop + "."
}

var propertyNotes = map[string]string{}

// extraCoverage: in the thorough tier every check also runs its must-fail corpus (deliberate
// property-breaking edits applied in memory to /repo's current sources): each must make an obligation
// of this property fail. A miss does not fail the check (the property still holds on the tree); it is
// recorded so that a vacuous or weakened contract is noticed.
func extraCoverage(prop string, o *options) map[string]any {
	if o.tier != "thorough" || o.only != "" {
		return nil
	}
	ms, err := loadMutants(o)
	if err != nil {
		return map[string]any{"must_fail_corpus": map[string]any{"error": err.Error()}}
	}
	var sel []mutant
	for _, m := range ms {
		if m.Property == prop && m.Disabled == "" {
			sel = append(sel, m)
		}
	}
	if len(sel) == 0 {
		return map[string]any{"must_fail_corpus": map[string]any{"mutants": 0}}
	}
	results := make([]mutantOutcome, len(sel))
	var wg sync.WaitGroup
	sem := make(chan struct{}, 3)
	for i, m := range sel {
		i, m := i, m
		wg.Add(1)
		sem <- struct{}{}
		go func() {
			defer wg.Done()
			defer func() { <-sem }()
			results[i] = runMutant(m, o)
		}()
	}
	wg.Wait()
	caught := 0
	var detail []map[string]any
	for _, r := range results {
		if r.caught {
			caught++
		} else {
			fmt.Printf("MUST-FAIL-MISS property=%s mutant=%s (%s) %s\n", prop, r.m.ID, r.m.Note, r.problem)
		}
		detail = append(detail, map[string]any{"id": r.m.ID, "note": r.m.Note, "caught": r.caught, "failed_obligations": shorten(r.failed, 4), "problem": r.problem})
	}
	fmt.Printf("govc: must-fail corpus for %s: %d mutants, %d caught\n", prop, len(sel), caught)
	return map[string]any{"must_fail_corpus": map[string]any{"mutants": len(sel), "caught": caught, "detail": detail}}
}

func cmdSelftest(args []string, o *options) int {
	return runSelftest(args, o)
}

func indent(s string) string { return "  " + strings.ReplaceAll(s, "\n", "\n  ") }

// ---------------------------------------------------------------------------
// Write-once captured variables: a free variable whose cell is stored exactly once, in the function
// that declares it, before any closure capturing it is created, and is otherwise only read (here and
// in every closure that captures it), has a fixed value for the closure's whole life. Its loads are
// modelled by one constant, independent of the heap (calls that "modify all" cannot reach the cell:
// its address is never stored or passed anywhere).

func readOnlyFreeVar(fv *ssa.FreeVar, depth int) bool {
	if depth > 4 || fv.Referrers() == nil {
		return false
	}
	for _, r := range *fv.Referrers() {
		switch u := r.(type) {
		case *ssa.UnOp:
			if u.Op != token.MUL {
				return false
			}
		case *ssa.DebugRef:
		case *ssa.MakeClosure:
			fn := u.Fn.(*ssa.Function)
			for i, b := range u.Bindings {
				if b == ssa.Value(fv) && (i >= len(fn.FreeVars) || !readOnlyFreeVar(fn.FreeVars[i], depth+1)) {
					return false
				}
			}
		default:
			return false
		}
	}
	return true
}

func before(a, b ssa.Instruction) bool {
	if a.Block() == b.Block() {
		for _, ins := range a.Block().Instrs {
			if ins == a {
				return true
			}
			if ins == b {
				return false
			}
		}
		return false
	}
	return a.Block().Dominates(b.Block())
}

func writeOnceCell(cell ssa.Value, depth int) bool {
	switch c := cell.(type) {
	case *ssa.FreeVar:
		return freeVarIsConst(c, depth+1) && readOnlyFreeVar(c, depth+1)
	case *ssa.Alloc:
		if c.Referrers() == nil {
			return false
		}
		var store *ssa.Store
		var closures []*ssa.MakeClosure
		for _, r := range *c.Referrers() {
			switch u := r.(type) {
			case *ssa.Store:
				if u.Addr != ssa.Value(c) || store != nil {
					return false
				}
				store = u
			case *ssa.UnOp:
				if u.Op != token.MUL {
					return false
				}
			case *ssa.DebugRef:
			case *ssa.MakeClosure:
				fn := u.Fn.(*ssa.Function)
				for i, b := range u.Bindings {
					if b == ssa.Value(c) && (i >= len(fn.FreeVars) || !readOnlyFreeVar(fn.FreeVars[i], depth+1)) {
						return false
					}
				}
				closures = append(closures, u)
			default:
				return false
			}
		}
		if store == nil {
			return false
		}
		for _, mc := range closures {
			if !before(store, mc) {
				return false
			}
		}
		return true
	}
	return false
}

func freeVarIsConst(fv *ssa.FreeVar, depth int) bool {
	if depth > 4 {
		return false
	}
	fn := fv.Parent()
	parent := fn.Parent()
	if parent == nil {
		return false
	}
	idx := -1
	for i, f := range fn.FreeVars {
		if f == fv {
			idx = i
		}
	}
	if idx < 0 || !readOnlyFreeVar(fv, depth) {
		return false
	}
	found := false
	for _, b := range parent.Blocks {
		for _, ins := range b.Instrs {
			if mc, ok := ins.(*ssa.MakeClosure); ok && mc.Fn == ssa.Value(fn) {
				found = true
				if idx >= len(mc.Bindings) || !writeOnceCell(mc.Bindings[idx], depth) {
					return false
				}
			}
		}
	}
	return found
}

// ---------------------------------------------------------------------------
// Frozen fields: `frozen Type.field` declares that the field is only ever assigned through the
// address of an object allocated in the assigning function (its constructor) and that its address is
// never taken for anything but loads. The scan below checks that over every function of the module;
// havocAll then keeps the field's heap (a call cannot change it).

func (p *Prog) isFrozenFieldAddr(fa *ssa.FieldAddr, fz ClosesOnly) bool {
	n, ok := derefType(fa.X.Type()).(*types.Named)
	if !ok || n.Obj().Pkg() == nil || n.Obj().Pkg().Path() != fz.PkgPath || n.Obj().Name() != fz.Type {
		return false
	}
	st, ok := n.Underlying().(*types.Struct)
	return ok && st.Field(fa.Field).Name() == fz.Field
}

func localObject(v ssa.Value) bool {
	switch x := v.(type) {
	case *ssa.Alloc:
		return true
	case *ssa.Phi:
		for _, e := range x.Edges {
			if !localObject(e) {
				return false
			}
		}
		return true
	}
	return false
}

func (p *Prog) frozenObligation(fz ClosesOnly, prop string) *Obligation {
	name := p.shortKey(fz.PkgPath) + "." + fz.Type + "." + fz.Field + "/FRAME.frozen"
	ob := &Obligation{Name: name, Class: "FRAME", Props: []string{prop}, Expect: "unsat", Status: "discharged", FuncKey: name,
		Desc:   "field " + fz.Type + "." + fz.Field + " is assigned only through objects allocated in the assigning function, and its address is only loaded from",
		Result: SolverResult{Solver: "govc-structural", Answer: "unsat"}}
	fail := func(where, what string) {
		ob.Status = "failed"
		ob.Result = SolverResult{Solver: "govc", Answer: "write-found"}
		ob.Desc += "; " + what + " in " + where
	}
	var structT types.Type
	var readOnlyUse func(v ssa.Value, depth int) bool
	readOnlyUse = func(v ssa.Value, depth int) bool {
		if v.Referrers() == nil || depth > 4 {
			return depth <= 4
		}
		for _, r := range *v.Referrers() {
			switch u := r.(type) {
			case *ssa.UnOp:
				if u.Op != token.MUL {
					return false
				}
			case *ssa.DebugRef:
			case *ssa.FieldAddr:
				if !readOnlyUse(u, depth+1) {
					return false
				}
			case *ssa.IndexAddr:
				if !readOnlyUse(u, depth+1) {
					return false
				}
			default:
				return false
			}
		}
		return true
	}
	for key, fn := range p.funcs {
		for _, b := range fn.Blocks {
			for _, ins := range b.Instrs {
				switch x := ins.(type) {
				case *ssa.FieldAddr:
					if !p.isFrozenFieldAddr(x, fz) {
						continue
					}
					structT = derefType(x.X.Type())
					if x.Referrers() == nil {
						continue
					}
					for _, r := range *x.Referrers() {
						switch u := r.(type) {
						case *ssa.Store:
							if u.Addr == ssa.Value(x) {
								if !localObject(x.X) {
									fail(p.shortKey(key), "assignment to the field of an existing object")
								}
							} else {
								fail(p.shortKey(key), "address of the field stored")
							}
						case *ssa.UnOp:
							if u.Op != token.MUL {
								fail(p.shortKey(key), "address of the field used")
							}
						case *ssa.DebugRef:
						case *ssa.FieldAddr, *ssa.IndexAddr:
							if !readOnlyUse(u.(ssa.Value), 0) {
								fail(p.shortKey(key), "address inside the field escapes or is written")
							}
						default:
							fail(p.shortKey(key), "address of the field escapes")
						}
					}
				case *ssa.Store:
					// whole-struct assignment through a pointer to an existing object
					if n, ok := derefType(x.Addr.Type()).(*types.Named); ok && n.Obj().Pkg() != nil && n.Obj().Pkg().Path() == fz.PkgPath && n.Obj().Name() == fz.Type {
						if !localObject(x.Addr) {
							fail(p.shortKey(key), "whole-struct assignment to an existing "+fz.Type)
						}
					}
				}
			}
		}
	}
	_ = structT
	return ob
}
