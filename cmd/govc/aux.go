package main

// Lemmas (pure SMT goals over spec functions), property explanations, extra coverage hooks.

import (
	"fmt"
	"strings"
)

// lemmaObligation turns a lemma into one obligation: hyps ==> goal over universally quantified vars.
func (p *Prog) lemmaObligation(lm *Lemma) ([]*Obligation, error) {
	sc := NewScript()
	e := &Enc{prog: p, sc: sc, tr: newTypeReg(p.modPath, sc), heapSorts: map[string]string{}, allocBefore: map[int]Term{},
		counters: map[string]int{}, assumed: map[string]bool{}, abstracted: map[string]bool{}, rndSeen: map[string]bool{}, fnIDs: map[string]int{},
		typedSeen: map[string]bool{}, usedContracts: map[string]bool{}, key: "lemma." + lm.Name}
	st := e.newFreshState()
	e.entryStateID = st.id
	se := &specEnv{e: e, old: st, cur: st, binds: map[string]specVal{}, noLocal: true, pkg: p.typesPkg(lm.PkgPath)}
	for _, v := range lm.Vars {
		srt, err := ghostSort(v.Type)
		if err != nil {
			return nil, fmt.Errorf("%s:%d: %v", lm.File, lm.Line, err)
		}
		se.binds[v.Name] = specVal{t: sc.Declare("lv_"+v.Name, srt)}
	}
	for _, h := range lm.Hyps {
		t, err := se.evalBool(h.Expr)
		if err != nil {
			return nil, fmt.Errorf("%s:%d: %v", h.File, h.Line, err)
		}
		sc.AssertNamed(t, "hypothesis "+h.Text)
	}
	g, err := se.evalBool(lm.Goal.Expr)
	if err != nil {
		return nil, fmt.Errorf("%s:%d: %v", lm.Goal.File, lm.Goal.Line, err)
	}
	ob := &Obligation{Name: "lemma." + lm.Name + "/goal", Class: "lemma", Props: lm.Props, Goal: g, Desc: "lemma: " + lm.Goal.Text,
		Pos: fmt.Sprintf("%s:%d", relPath(p.verifDir, lm.File), lm.Line), Expect: "unsat", FuncKey: "lemma." + lm.Name, Script: sc, cutDecls: -1, cutAsserts: -1}
	cov := &Obligation{Name: "lemma." + lm.Name + "/COVER.hyps", Class: "COVER", Props: lm.Props, Goal: TTrue, Expect: "sat", FuncKey: "lemma." + lm.Name,
		Script: sc, Desc: "lemma hypotheses are satisfiable", cutDecls: -1, cutAsserts: -1}
	return []*Obligation{ob, cov}, nil
}

func propertyExplanation(prop string) string {
	if s, ok := propertyNotes[prop]; ok {
		return s
	}
	return "Contracts on the functions listed under functions_under_contract; every obligation generated from the current go/ssa of /repo and discharged by SMT. See DESIGN.md §3 " + prop + "."
}

var propertyNotes = map[string]string{}

func extraCoverage(prop string, o *options) map[string]any { return nil }

func cmdSelftest(args []string, o *options) int {
	return runSelftest(args, o)
}

func indent(s string) string { return "  " + strings.ReplaceAll(s, "\n", "\n  ") }
