package main

// Verification-condition generation over go/ssa for one function.

import (
	"fmt"
	"go/constant"
	"go/token"
	"go/types"
	"sort"
	"strings"

	"golang.org/x/tools/go/ssa"
)

type Obligation struct {
	Name    string // <pkg>.<Func>/<class>#n
	Class   string
	Props   []string
	Goal    Term // must hold (under the background)
	Desc    string
	Pos     string
	Expect  string // "unsat" for proof obligations, "sat" for COVER
	FuncKey string
	Script  *Script
	// results
	Result               SolverResult
	All                  []SolverResult
	Status               string // discharged | failed | cover-ok | cover-failed
	QueryTxt             string
	cutDecls, cutAsserts int // background prefix visible to this obligation (-1: everything)
	enc                  *Enc
	sliced               bool
	sliceDepth           int
	assumeIdx            int          // index in Script.Asserts of the fact assumed after this obligation (-1: none)
	excluded             map[int]bool // for COVER: assertion indexes to leave out (facts assumed after obligations that failed)
}

type excEdge struct {
	cond     Term
	state    *State
	panicVal Term
	defers   map[*ssa.Defer]Term // registered flags at that point
}

type retEdge struct {
	cond    Term
	state   *State
	results []Term
}

type loopInfo struct {
	header  *ssa.BasicBlock
	ordinal int
	body    map[*ssa.BasicBlock]bool
	backs   []*ssa.BasicBlock // sources of back edges
}

// Enc is the per-function encoder.
type Enc struct {
	loopInvCache map[*loopInfo][]Clause
	extraBinds   map[string]specVal // names of a vanished helper's parameters, bound when its loop invariants are adopted
	topFn *ssa.Function // the function under verification (e.fn changes while a callee is inlined)
	inl        string // name prefix of the values of the function currently being inlined ("" at top level)
	inlineSeq  int
	inlining   map[*ssa.Function]bool
	inlineDepth int
	entryGuard Term // guard of the entry block of an inlined function (TTrue at top level)
	loopBase   int
	fnStack    []*ssa.Function
	heldNamed    []Term // mutex addresses named by held(...) in the requires clauses
	woCache      map[*ssa.Alloc]*ssa.Store
	frozenNames  map[string]bool
	debugSeen    map[*ssa.DebugRef]int // execution order of the DebugRef instructions processed so far
	debugSeq     int
	nfTaint      map[string]Term // constant name -> condition under which its value may be non-finite (Inf/NaN)
	privateChans []Term          // channels made here (or captured write-once) that only this function and its closures receive from / close
	fvConst      map[string]Term // address term of a write-once captured variable -> its value
	unmarshalled bool            // a decoder havocked every heap: heaps first touched later are unconstrained too (they are anyway)
	prog         *Prog
	fn           *ssa.Function
	fc           *FuncContract
	key          string
	sc           *Script
	tr           *TypeReg

	stateCounter int
	freshCounter int
	entryStateID int
	heapSorts    map[string]string
	allocBefore  map[int]Term

	vals     map[ssa.Value]Term
	tuples   map[ssa.Value][]Term
	guard    map[*ssa.BasicBlock]Term
	exitSt   map[*ssa.BasicBlock]*State
	edgeCond map[[2]*ssa.BasicBlock]Term
	entry    *State // frozen entry state (old)
	cur      *State
	curBlock *ssa.BasicBlock
	curGuard Term

	loops      map[*ssa.BasicBlock]*loopInfo
	loopList   []*loopInfo
	localCells map[*ssa.Alloc]bool

	obls     []*Obligation
	counters map[string]int
	rets     []retEdge
	excs     []excEdge
	panics   []excEdge // final panic exits (after defers ran)
	deferReg map[*ssa.Defer]Term
	deferOrd []*ssa.Defer
	callOrd  map[string]int // callee name -> number of calls seen (for hooks)

	abstracted map[string]bool
	assumed    map[string]bool
	warnings   []string
	rndTerms   []Term
	rndSeen    map[string]bool
	fnIDs      map[string]int

	panicking     Term // when verifying a `recovers` function: caller's panic flag
	panicVal      Term
	recoveredFlag Term
	inHandler     bool

	ordCache       map[ssa.Instruction]int
	usedContracts  map[string]bool
	spawnSites     map[ssa.Instruction]bool // go statements on functions without contract seen so far
	arbParams      map[*ssa.Parameter]bool // parameters of inlined helpers that receive an arbitrary user value
	usedKeys       map[string]bool // contract keys of the module functions called by contract
	extra          []Term
	blockGuard     Term
	deferCallee    map[*ssa.Defer]Term
	deferArgs      map[*ssa.Defer][]Term
	stillPanicking Term
	curPanicVal    Term
	recoveredBy    []Term
	deferExtra     map[string]specVal
	expArgs        []Term
	debugNames     map[string][]*ssa.DebugRef
	typedSeen      map[string]bool
	hookHit        map[string]bool
	rndInit        bool
	rndConst       map[string]Term
	rndVals        []Term
	purified       map[string]Term
}

func (p *Prog) newEnc(fn *ssa.Function, fc *FuncContract, key string) *Enc {
	sc := NewScript()
	e := &Enc{prog: p, fn: fn, fc: fc, key: key, sc: sc, tr: newTypeReg(p.modPath, sc),
		heapSorts: map[string]string{}, allocBefore: map[int]Term{},
		vals: map[ssa.Value]Term{}, tuples: map[ssa.Value][]Term{}, guard: map[*ssa.BasicBlock]Term{},
		exitSt: map[*ssa.BasicBlock]*State{}, edgeCond: map[[2]*ssa.BasicBlock]Term{},
		loops: map[*ssa.BasicBlock]*loopInfo{}, localCells: map[*ssa.Alloc]bool{},
		counters: map[string]int{}, deferReg: map[*ssa.Defer]Term{}, callOrd: map[string]int{},
		abstracted: map[string]bool{}, assumed: map[string]bool{}, rndSeen: map[string]bool{}, fnIDs: map[string]int{},
		typedSeen: map[string]bool{}, rndConst: map[string]Term{}, purified: map[string]Term{}, hookHit: map[string]bool{}, usedContracts: map[string]bool{}, deferCallee: map[*ssa.Defer]Term{}, deferArgs: map[*ssa.Defer][]Term{}}
	sc.Declare("TIME_ZERO", SInt)
	sc.Assert(Eq(T("TIME_ZERO", SInt), IntLitS("-6795364578871345152"))) // any fixed value distinct from real clock readings
	return e
}

func (e *Enc) fresh(prefix, sort string) Term {
	e.freshCounter++
	return e.sc.Declare(fmt.Sprintf("%s!%d", prefix, e.freshCounter), sort)
}

func (e *Enc) warn(format string, args ...any) {
	e.warnings = append(e.warnings, fmt.Sprintf(format, args...))
}

func (e *Enc) posOf(p token.Pos) string {
	if !p.IsValid() {
		return ""
	}
	ps := e.prog.fset.Position(p)
	return fmt.Sprintf("%s:%d", relPath(e.prog.repoDir, ps.Filename), ps.Line)
}

func relPath(base, p string) string {
	if strings.HasPrefix(p, base+"/") {
		return p[len(base)+1:]
	}
	return p
}

// oblige records a proof obligation: under the current block guard, cond must hold.
func (e *Enc) oblige(class, label string, props []string, cond Term, desc string, pos token.Pos) {
	e.obligeG(e.curGuard, class, label, props, cond, desc, pos)
}

func (e *Enc) obligeG(guard Term, class, label string, props []string, cond Term, desc string, pos token.Pos) {
	name := class
	if label != "" {
		name = class + "." + label
	} else {
		n := e.counters[class]
		e.counters[class] = n + 1
		name = fmt.Sprintf("%s#%d", class, n)
	}
	goal := Implies(guard, cond)
	if len(props) == 0 && e.fc != nil {
		props = e.fc.Props
	}
	ob := &Obligation{Name: e.key + "/" + name, Class: class, Props: props, Goal: goal, Desc: desc,
		Pos: e.posOf(pos), Expect: "unsat", FuncKey: e.key, Script: e.sc, cutDecls: len(e.sc.Decls), cutAsserts: len(e.sc.Asserts), enc: e}
	e.obls = append(e.obls, ob)
	ob.assumeIdx = -1
	// after checking, the fact may be assumed downstream (standard assert-then-assume); quantified
	// facts are not (they only slow the solvers down), except explicit proof hints
	if !strings.Contains(goal.S, "(forall ") && !strings.Contains(goal.S, "(exists ") || class == "assert" {
		if goal.S != "true" {
			ob.assumeIdx = len(e.sc.Asserts)
		}
		e.sc.AssertNamed(goal, "assumed after obligation "+name)
	}
}

// obligeNoAssume is like oblige but does not add the fact to the background (used for COVER and
// for obligations whose failure should not mask later ones).
func (e *Enc) cover(name string, cond Term) {
	ob := &Obligation{Name: e.key + "/COVER." + name, Class: "COVER", Goal: cond, Expect: "sat", FuncKey: e.key, Script: e.sc,
		Desc: "vacuity guard: must be satisfiable", cutDecls: -1, cutAsserts: -1}
	if e.fc != nil {
		ob.Props = e.fc.Props
	}
	e.obls = append(e.obls, ob)
}

// ---------------------------------------------------------------------------
// Values

func (e *Enc) constTerm(c *ssa.Const) Term {
	t := c.Type()
	if c.Value == nil {
		return e.tr.zeroOf(t)
	}
	srt := e.tr.sortOf(t)
	switch c.Value.Kind() {
	case constant.Bool:
		return BoolLit(constant.BoolVal(c.Value))
	case constant.String:
		return StrLit(constant.StringVal(c.Value))
	case constant.Int:
		if srt == SReal {
			return realLit(c.Value)
		}
		return IntLitS(c.Value.ExactString())
	case constant.Float:
		if srt == SInt {
			iv := constant.ToInt(c.Value)
			return IntLitS(iv.ExactString())
		}
		return realLit(c.Value)
	}
	return e.fresh("const", srt)
}

// realLit renders the float64 value of a constant exactly as a rational.
func realLit(v constant.Value) Term {
	f, _ := constant.Float64Val(v)
	// exact rational of the float64
	r := constant.MakeFloat64(f)
	num := constant.Num(r)
	den := constant.Denom(r)
	ns, ds := num.ExactString(), den.ExactString()
	neg := strings.HasPrefix(ns, "-")
	if neg {
		ns = ns[1:]
	}
	var s string
	if ds == "1" {
		s = ns + ".0"
	} else {
		s = fmt.Sprintf("(/ %s.0 %s.0)", ns, ds)
	}
	if neg {
		s = "(- " + s + ")"
	}
	return Term{s, SReal}
}

func (e *Enc) val(v ssa.Value) Term {
	if t, ok := e.vals[v]; ok {
		return t
	}
	switch x := v.(type) {
	case *ssa.Const:
		return e.constTerm(x)
	case *ssa.Function:
		return e.fnTerm(x)
	case *ssa.Global:
		name := "glob$" + sanitize(x.Pkg.Pkg.Name()+"$"+x.Name())
		t := e.sc.Declare(name, SInt)
		e.sc.Raw(fmt.Sprintf("(assert (> %s 0))", name))
		e.vals[v] = t
		return t
	case *ssa.Builtin:
		return IntLit(0)
	case *ssa.Parameter, *ssa.FreeVar:
		panic("parameter not bound: " + v.Name())
	}
	// address-valued instruction used as a value
	switch v.(type) {
	case *ssa.FieldAddr, *ssa.IndexAddr, *ssa.Alloc:
		lv := e.lvalOf(v)
		return e.lvalAsPointer(lv, v)
	}
	panic(fmt.Sprintf("%s: value %s (%T) used before definition", e.key, v.Name(), v))
}

// fnTerm gives each static function a distinct positive identifier.
func (e *Enc) fnTerm(f *ssa.Function) Term { return e.prog.fnTermByName(f.String()) }

func (e *Enc) define(v ssa.Value, t Term) {
	name := fmt.Sprintf("v_%s%s", e.inl, sanitize(v.Name()))
	if _, isParam := v.(*ssa.Parameter); isParam {
		name = "p_" + e.inl + sanitize(v.Name())
	}
	// integer-valued floats keep their syntactic witness: name the integer, not the real
	if w, ok := intWitness(t); ok && t.Sort == SReal && !isDigits(strings.TrimPrefix(w.S, "-")) {
		ic := e.sc.Declare(name+"$i", SInt)
		e.sc.AssertDef(name+"$i", Eq(ic, w))
		e.vals[v] = App(SReal, "to_real", ic)
		return
	}
	c := e.sc.Declare(name, t.Sort)
	e.sc.AssertDef(name, Eq(c, t))
	e.vals[v] = c
	if t.Sort == SReal {
		if tc, ok := e.taintOf(t); ok {
			e.addTaint(c, tc)
		}
	}
}

func (e *Enc) defineFresh(v ssa.Value) Term {
	srt := e.tr.sortOf(v.Type())
	name := fmt.Sprintf("v_%s%s", e.inl, sanitize(v.Name()))
	c := e.sc.Declare(name, srt)
	e.vals[v] = c
	e.sc.Assert(Implies(e.curGuard, e.tr.rangeAssumption(c, v.Type(), 0)))
	return c
}

// ---------------------------------------------------------------------------
// L-values

type lvKind int

const (
	lvLocal lvKind = iota
	lvPtr
	lvElem
)

type pathStep struct {
	field int  // >= 0: struct field
	index Term // otherwise array index
	typ   types.Type
}

type LVal struct {
	kind  lvKind
	local *ssa.Alloc
	ptr   Term
	idx   Term
	typ   types.Type // type of the base cell (local: alloc'd type; ptr: pointee; elem: element type)
	field int        // lvPtr only: >=0 designates heap field cell F$T$f
	path  []pathStep
}

func (lv LVal) cellType() types.Type {
	t := lv.typ
	if lv.kind == lvPtr && lv.field >= 0 {
		t = t.Underlying().(*types.Struct).Field(lv.field).Type()
	}
	for _, st := range lv.path {
		t = st.typ
	}
	return t
}

func derefType(t types.Type) types.Type {
	if p, ok := t.Underlying().(*types.Pointer); ok {
		return p.Elem()
	}
	panic("not a pointer type: " + t.String())
}

func (e *Enc) lvalOf(v ssa.Value) LVal {
	switch x := v.(type) {
	case *ssa.Alloc:
		if e.localCells[x] {
			return LVal{kind: lvLocal, local: x, typ: derefType(x.Type()), field: -1}
		}
		return LVal{kind: lvPtr, ptr: e.vals[x], typ: derefType(x.Type()), field: -1}
	case *ssa.FieldAddr:
		base := e.lvalOf(x.X)
		ct := base.cellType()
		st := ct.Underlying().(*types.Struct)
		ft := st.Field(x.Field).Type()
		if base.kind == lvPtr && base.field < 0 && len(base.path) == 0 {
			if _, isMod := e.tr.isModuleStruct(ct); isMod {
				if _, fIsMod := e.tr.isModuleStruct(ft); fIsMod {
					// interior pointer to embedded struct
					slot := e.tr.layout(ct).slots[x.Field]
					return LVal{kind: lvPtr, ptr: App(SInt, "+", base.ptr, IntLit(int64(slot))), typ: ft, field: -1}
				}
				return LVal{kind: lvPtr, ptr: base.ptr, typ: ct, field: x.Field}
			}
			// opaque external struct: fields not modelled; address is base + (field+1)
			return LVal{kind: lvPtr, ptr: App(SInt, "+", base.ptr, IntLit(int64(x.Field+1))), typ: ft, field: -1}
		}
		nl := base
		nl.path = append(append([]pathStep{}, base.path...), pathStep{field: x.Field, typ: ft})
		return nl
	case *ssa.IndexAddr:
		xt := x.X.Type().Underlying()
		switch u := xt.(type) {
		case *types.Slice:
			sv := e.val(x.X)
			return LVal{kind: lvElem, ptr: App(SInt, "sref", sv), idx: e.val(x.Index), typ: u.Elem(), field: -1}
		case *types.Pointer:
			arr := u.Elem().Underlying().(*types.Array)
			base := e.lvalOf(x.X)
			if base.kind == lvPtr && base.field < 0 && len(base.path) == 0 {
				// heap array: backing store keyed by the array's address
				return LVal{kind: lvElem, ptr: base.ptr, idx: e.val(x.Index), typ: arr.Elem(), field: -1}
			}
			nl := base
			nl.path = append(append([]pathStep{}, base.path...), pathStep{field: -1, index: e.val(x.Index), typ: arr.Elem()})
			return nl
		}
		panic("IndexAddr on " + xt.String())
	}
	// any other pointer-typed value
	return LVal{kind: lvPtr, ptr: e.val(v), typ: derefType(v.Type()), field: -1}
}

// lvalAsPointer converts an l-value to an integer address when it escapes.
func (e *Enc) lvalAsPointer(lv LVal, v ssa.Value) Term {
	switch lv.kind {
	case lvPtr:
		if lv.field < 0 && len(lv.path) == 0 {
			return lv.ptr
		}
		if lv.field >= 0 && len(lv.path) == 0 {
			// address of a scalar field: base + span + field (unique, never dereferenced through P$ heaps)
			ft := lv.cellType()
			if _, isAt := isAtomicScalar(ft); !isAt {
				if _, isStruct := ft.Underlying().(*types.Struct); !isStruct {
					e.warn("address of scalar field %s escapes at %s", v.Name(), e.posOf(v.Pos()))
				}
			}
			return App(SInt, "+", lv.ptr, IntLit(int64(1000+lv.field)))
		}
	case lvLocal:
		e.warn("address of local cell %s escapes", lv.local.Comment)
	}
	e.warn("unsupported escaping address %s at %s", v.Name(), e.posOf(v.Pos()))
	return e.fresh("addr", SInt)
}

func heapFieldName(tr *TypeReg, t types.Type, field int) string {
	st := t.Underlying().(*types.Struct)
	return "F$" + tr.typeID(t) + "$" + fieldName(st.Field(field), field)
}

func (e *Enc) localName(a *ssa.Alloc) string {
	pre := ""
	if a.Parent() != nil && e.topFn != nil && a.Parent() != e.topFn {
		pre = sanitize(a.Parent().Name()) + "_"
	}
	return fmt.Sprintf("L$%s%s_%s", pre, sanitize(a.Name()), sanitize(a.Comment))
}

// loadPtr loads a value of type t stored at address p (no path).
func (e *Enc) loadPtr(s *State, p Term, t types.Type) Term {
	if st, ok := e.tr.isModuleStruct(t); ok {
		srt := e.tr.sortOf(t)
		lay := e.tr.layout(t)
		var args []Term
		for i := 0; i < st.NumFields(); i++ {
			ft := st.Field(i).Type()
			if _, fmod := e.tr.isModuleStruct(ft); fmod {
				args = append(args, e.loadPtr(s, App(SInt, "+", p, IntLit(int64(lay.slots[i]))), ft))
			} else {
				h := e.lookup(s, heapFieldName(e.tr, t, i), ArraySort(SInt, e.tr.sortOf(ft)))
				args = append(args, Select(h, p))
			}
		}
		if len(args) == 0 {
			return Term{"mk_" + srt, srt}
		}
		return App(srt, "mk_"+srt, args...)
	}
	h := e.lookup(s, "P$"+e.tr.typeID(t), ArraySort(SInt, e.tr.sortOf(t)))
	return Select(h, p)
}

func (e *Enc) storePtr(s *State, p Term, t types.Type, v Term) {
	if st, ok := e.tr.isModuleStruct(t); ok {
		lay := e.tr.layout(t)
		srt := e.tr.sortOf(t)
		for i := 0; i < st.NumFields(); i++ {
			ft := st.Field(i).Type()
			fv := App(e.tr.sortOf(ft), srt+"_"+fieldName(st.Field(i), i), v)
			if _, fmod := e.tr.isModuleStruct(ft); fmod {
				e.storePtr(s, App(SInt, "+", p, IntLit(int64(lay.slots[i]))), ft, fv)
			} else {
				name := heapFieldName(e.tr, t, i)
				h := e.lookup(s, name, ArraySort(SInt, e.tr.sortOf(ft)))
				e.set(s, name, Store(h, p, fv))
			}
		}
		return
	}
	name := "P$" + e.tr.typeID(t)
	h := e.lookup(s, name, ArraySort(SInt, e.tr.sortOf(t)))
	e.set(s, name, Store(h, p, v))
}

// applyPath reads through selectors.
func (e *Enc) applyPath(v Term, t types.Type, path []pathStep) Term {
	for _, st := range path {
		if st.field >= 0 {
			s := t.Underlying().(*types.Struct)
			if _, ok := e.tr.isModuleStruct(t); !ok {
				// opaque struct value: unknown field
				v = e.fresh("opaquefld", e.tr.sortOf(st.typ))
			} else {
				v = structField(v, e.tr.sortOf(st.typ), fieldName(s.Field(st.field), st.field), st.field)
			}
		} else {
			v = Select(v, st.index)
		}
		t = st.typ
	}
	return v
}

// structField selects field i of struct value v; a selector applied to a constructor term is
// simplified to the component (keeps repeated field updates of a local struct linear in size).
func structField(v Term, fieldSort, fname string, i int) Term {
	pre := "(mk_" + v.Sort + " "
	if strings.HasPrefix(v.S, pre) && strings.HasSuffix(v.S, ")") {
		body := v.S[len(pre) : len(v.S)-1]
		k := 0
		for len(body) > 0 {
			body = strings.TrimLeft(body, " ")
			if body == "" {
				break
			}
			a := readSexp(body)
			if a == "" {
				break
			}
			if k == i {
				return Term{a, fieldSort}
			}
			body = body[len(a):]
			k++
		}
	}
	return App(fieldSort, v.Sort+"_"+fname, v)
}

// updatePath returns v with the cell at path replaced by nv.
func (e *Enc) updatePath(v Term, t types.Type, path []pathStep, nv Term) Term {
	if len(path) == 0 {
		return nv
	}
	st := path[0]
	if st.field >= 0 {
		s, ok := e.tr.isModuleStruct(t)
		if !ok {
			return v
		}
		var args []Term
		for i := 0; i < s.NumFields(); i++ {
			fs := e.tr.sortOf(s.Field(i).Type())
			fv := structField(v, fs, fieldName(s.Field(i), i), i)
			if i == st.field {
				fv = e.updatePath(fv, st.typ, path[1:], nv)
			}
			args = append(args, fv)
		}
		return App(v.Sort, "mk_"+v.Sort, args...)
	}
	inner := e.updatePath(Select(v, st.index), st.typ, path[1:], nv)
	return Store(v, st.index, inner)
}

func (e *Enc) load(lv LVal) Term {
	s := e.cur
	switch lv.kind {
	case lvLocal:
		base := e.lookup(s, e.localName(lv.local), e.tr.sortOf(lv.typ))
		return e.applyPath(base, lv.typ, lv.path)
	case lvPtr:
		if lv.field >= 0 {
			ft := lv.typ.Underlying().(*types.Struct).Field(lv.field).Type()
			h := e.lookup(s, heapFieldName(e.tr, lv.typ, lv.field), ArraySort(SInt, e.tr.sortOf(ft)))
			return e.applyPath(Select(h, lv.ptr), ft, lv.path)
		}
		return e.applyPath(e.loadPtr(s, lv.ptr, lv.typ), lv.typ, lv.path)
	case lvElem:
		name := "E$" + e.tr.typeID(lv.typ)
		h := e.lookup(s, name, ArraySort(SInt, ArraySort(SInt, e.tr.sortOf(lv.typ))))
		return e.applyPath(Select(Select(h, lv.ptr), lv.idx), lv.typ, lv.path)
	}
	panic("load")
}

func (e *Enc) store(lv LVal, v Term) {
	s := e.cur
	switch lv.kind {
	case lvLocal:
		name := e.localName(lv.local)
		if len(lv.path) == 0 {
			e.set(s, name, v)
			return
		}
		base := e.lookup(s, name, e.tr.sortOf(lv.typ))
		e.set(s, name, e.updatePath(base, lv.typ, lv.path, v))
	case lvPtr:
		if lv.field >= 0 {
			ft := lv.typ.Underlying().(*types.Struct).Field(lv.field).Type()
			name := heapFieldName(e.tr, lv.typ, lv.field)
			h := e.lookup(s, name, ArraySort(SInt, e.tr.sortOf(ft)))
			nv := v
			if len(lv.path) > 0 {
				nv = e.updatePath(Select(h, lv.ptr), ft, lv.path, v)
			}
			e.set(s, name, Store(h, lv.ptr, nv))
			return
		}
		if len(lv.path) > 0 {
			old := e.loadPtr(s, lv.ptr, lv.typ)
			v = e.updatePath(old, lv.typ, lv.path, v)
		}
		e.storePtr(s, lv.ptr, lv.typ, v)
	case lvElem:
		name := "E$" + e.tr.typeID(lv.typ)
		h := e.lookup(s, name, ArraySort(SInt, ArraySort(SInt, e.tr.sortOf(lv.typ))))
		row := Select(h, lv.ptr)
		nv := v
		if len(lv.path) > 0 {
			nv = e.updatePath(Select(row, lv.idx), lv.typ, lv.path, v)
		}
		e.set(s, name, Store(h, lv.ptr, Store(row, lv.idx, nv)))
	}
}

// heapNamesForStore lists the heap names a store through lv may change (static, for loop havoc).
func (e *Enc) heapNamesOfType(t types.Type, out map[string]string) {
	if st, ok := e.tr.isModuleStruct(t); ok {
		for i := 0; i < st.NumFields(); i++ {
			ft := st.Field(i).Type()
			if _, fmod := e.tr.isModuleStruct(ft); fmod {
				e.heapNamesOfType(ft, out)
			} else {
				out[heapFieldName(e.tr, t, i)] = ArraySort(SInt, e.tr.sortOf(ft))
			}
		}
		return
	}
	out["P$"+e.tr.typeID(t)] = ArraySort(SInt, e.tr.sortOf(t))
}

// ---------------------------------------------------------------------------
// Allocation

func (e *Enc) allocRef(t types.Type) Term {
	s := e.cur
	alloc := e.lookup(s, "alloc", SInt)
	ref := e.fresh("ref", SInt)
	e.sc.Assert(App(SBool, ">", ref, alloc))
	span := 1
	if _, ok := e.tr.isModuleStruct(t); ok {
		span = e.tr.layout(t).span
	}
	e.set(s, "alloc", App(SInt, "+", ref, IntLit(int64(span+2000))))
	return ref
}

// zeroInit stores the zero value of t at fresh address p.
func (e *Enc) zeroInit(p Term, t types.Type) {
	if arr, ok := t.Underlying().(*types.Array); ok {
		name := "E$" + e.tr.typeID(arr.Elem())
		es := e.tr.sortOf(arr.Elem())
		h := e.lookup(e.cur, name, ArraySort(SInt, ArraySort(SInt, es)))
		zero := Term{fmt.Sprintf("((as const %s) %s)", ArraySort(SInt, es), e.tr.zeroOf(arr.Elem()).S), ArraySort(SInt, es)}
		e.set(e.cur, name, Store(h, p, zero))
		return
	}
	e.storePtr(e.cur, p, t, e.tr.zeroOf(t))
}

// ---------------------------------------------------------------------------
// Loop detection

func (e *Enc) findLoops() {
	e.findLoopsFor(e.fn)
}

// findLoopsFor registers the natural loops of fn; their ordinals continue after the loops registered so far
// (so that `loop k invariant` clauses of the function under verification also reach loops of inlined helpers).
func (e *Enc) findLoopsFor(fn *ssa.Function) {
	var mine []*loopInfo
	for _, b := range fn.Blocks {
		for _, s := range b.Succs {
			if s.Dominates(b) {
				li := e.loops[s]
				if li == nil {
					li = &loopInfo{header: s, body: map[*ssa.BasicBlock]bool{s: true}}
					e.loops[s] = li
					mine = append(mine, li)
				}
				li.backs = append(li.backs, b)
				// natural loop body: nodes reaching b without passing through s
				stack := []*ssa.BasicBlock{b}
				for len(stack) > 0 {
					x := stack[len(stack)-1]
					stack = stack[:len(stack)-1]
					if li.body[x] {
						continue
					}
					li.body[x] = true
					stack = append(stack, x.Preds...)
				}
			}
		}
	}
	sort.Slice(mine, func(i, j int) bool { return mine[i].header.Index < mine[j].header.Index })
	for _, li := range mine {
		li.ordinal = len(e.loopList)
		e.loopList = append(e.loopList, li)
	}
}

func (e *Enc) isBackEdge(from, to *ssa.BasicBlock) bool {
	li := e.loops[to]
	if li == nil {
		return false
	}
	for _, b := range li.backs {
		if b == from {
			return true
		}
	}
	return false
}

// rpo returns blocks reachable from start in reverse post-order of the loop-cut CFG.
func (e *Enc) rpo(start *ssa.BasicBlock) []*ssa.BasicBlock {
	seen := map[*ssa.BasicBlock]bool{}
	var post []*ssa.BasicBlock
	var dfs func(b *ssa.BasicBlock)
	dfs = func(b *ssa.BasicBlock) {
		seen[b] = true
		for _, s := range b.Succs {
			if e.isBackEdge(b, s) || seen[s] {
				continue
			}
			dfs(s)
		}
		post = append(post, b)
	}
	dfs(start)
	for i, j := 0, len(post)-1; i < j; i, j = i+1, j-1 {
		post[i], post[j] = post[j], post[i]
	}
	return post
}

// ---------------------------------------------------------------------------
// Local cells: Allocs whose address never escapes and is only used directly.

func (e *Enc) classifyLocals() {
	e.classifyLocalsOf(e.fn)
}

func (e *Enc) classifyLocalsOf(fn *ssa.Function) {
	for _, b := range fn.Blocks {
		for _, ins := range b.Instrs {
			a, ok := ins.(*ssa.Alloc)
			if !ok || a.Heap {
				continue
			}
			if e.onlyDirectUses(a, 0) {
				e.localCells[a] = true
			}
		}
	}
}

func (e *Enc) onlyDirectUses(v ssa.Value, depth int) bool {
	refs := v.Referrers()
	if refs == nil {
		return false
	}
	for _, r := range *refs {
		switch x := r.(type) {
		case *ssa.UnOp:
			if x.Op != token.MUL {
				return false
			}
		case *ssa.Store:
			if x.Addr != v {
				return false // the address itself is stored somewhere
			}
		case *ssa.FieldAddr:
			if x.X != v || !e.onlyDirectUses(x, depth+1) {
				return false
			}
		case *ssa.IndexAddr:
			if x.X != v || !e.onlyDirectUses(x, depth+1) {
				return false
			}
		case *ssa.DebugRef:
		default:
			return false
		}
	}
	return true
}

func typeIsArray(t types.Type) bool {
	_, ok := t.Underlying().(*types.Array)
	return ok
}
