package main

// Calls (by contract), builtins, trusted externals, defers, panics, closures, function exit.

import (
	"fmt"
	"go/ast"
	"go/token"
	"go/types"
	"sort"
	"strings"

	"golang.org/x/tools/go/ssa"
)

// callName is the short name used to match ghost hooks and to label obligations.
func (e *Enc) callName(c *ssa.CallCommon) string {
	if c.IsInvoke() {
		return "invoke:" + c.Method.Name()
	}
	switch v := c.Value.(type) {
	case *ssa.Builtin:
		return "builtin:" + v.Name()
	case *ssa.Function:
		return shortFuncName(v)
	case *ssa.MakeClosure:
		return shortFuncName(v.Fn.(*ssa.Function))
	}
	return "dyn:" + e.dynName(c.Value)
}

func shortFuncName(f *ssa.Function) string {
	if a, ok := funcAlias[f]; ok {
		return a
	}
	if f.Pkg == nil {
		// synthetic wrapper / instantiated generic
		return f.Name()
	}
	return f.Pkg.Pkg.Name() + "." + f.RelString(f.Pkg.Pkg)
}

// dynName: the source name of a dynamically called function value.
func (e *Enc) dynName(v ssa.Value) string {
	switch x := v.(type) {
	case *ssa.Parameter:
		return x.Name()
	case *ssa.FreeVar:
		return x.Name()
	case *ssa.UnOp:
		if x.Op == token.MUL {
			switch a := x.X.(type) {
			case *ssa.FieldAddr:
				st := derefType(a.X.Type()).Underlying().(*types.Struct)
				return st.Field(a.Field).Name()
			case *ssa.IndexAddr:
				return e.dynName(a.X)
			case *ssa.Alloc:
				return a.Comment
			case *ssa.FreeVar:
				return a.Name()
			case *ssa.Global:
				return a.Name()
			}
		}
	case *ssa.Field:
		st := x.X.Type().Underlying().(*types.Struct)
		return st.Field(x.Field).Name()
	case *ssa.Phi:
		return x.Comment
	case *ssa.Extract:
		if n := debugIdent(x); n != "" {
			return n
		}
		return "extract"
	case *ssa.Call:
		if n := debugIdent(x); n != "" {
			return n
		}
		return "resultof:" + e.callName(x.Common())
	}
	return v.Name()
}

func matchCallee(name, pattern string) bool {
	if name == pattern {
		return true
	}
	if nr, pr := strings.HasPrefix(name, "recv:"), strings.HasPrefix(pattern, "recv:"); nr || pr {
		return nr && pr && matchCallee(name[5:], pattern[5:])
	}
	if strings.HasPrefix(name, "closure:") {
		return false
	}
	return strings.HasSuffix(name, "."+pattern) || strings.HasSuffix(name, ":"+pattern)
}

// callOrdinals assigns each call instruction its ordinal among calls with the same name, in
// (block index, instruction index) order.
func (e *Enc) callOrdinals() map[ssa.Instruction]int {
	res := map[ssa.Instruction]int{}
	count := map[string]int{}
	for _, b := range e.fn.Blocks {
		for _, ins := range b.Instrs {
			ci, ok := ins.(ssa.CallInstruction)
			if !ok {
				continue
			}
			n := e.callName(ci.Common())
			res[ins] = count[n]
			count[n]++
		}
	}
	return res
}

func (e *Enc) runHooks(when string, ci ssa.CallInstruction, args []Term, results []Term) error {
	if e.fc == nil || (len(e.fc.Hooks) == 0 && len(e.fc.Asserts) == 0) {
		return nil
	}
	if e.ordCache == nil {
		e.ordCache = e.callOrdinals()
	}
	name := e.callName(ci.Common())
	ord := e.ordCache[ci.(ssa.Instruction)]
	return e.runHooksNamed(when, name, ord, ci, args, results)
}

type posser interface{ Pos() token.Pos }

func (e *Enc) runHooksNamed(when, name string, ord int, at posser, args []Term, results []Term) error {
	if e.fc == nil {
		return nil
	}
	ci, _ := at.(ssa.CallInstruction)
	mkEnv := func() *specEnv {
		se := e.specEnv(e.entry, e.cur, nil)
		if ci != nil {
			for i, a := range args {
				se.binds[fmt.Sprintf("arg%d", i)] = specVal{t: a, typ: e.argType(ci.Common(), i)}
			}
			if c := ci.Common(); !c.IsInvoke() {
				if _, known := e.vals[c.Value]; known {
					se.binds["callee"] = specVal{t: e.vals[c.Value], typ: c.Value.Type()}
				}
			}
		}
		for i, r := range results {
			sv := specVal{t: r}
			if ci != nil {
				if rs := ci.Common().Signature().Results(); rs != nil && i < rs.Len() {
					sv.typ = rs.At(i).Type()
				}
			}
			se.binds[fmt.Sprintf("ret%d", i)] = sv
		}
		return se
	}
	for hi, h := range e.fc.Hooks {
		if h.When != when || !matchCallee(name, h.Callee) || (h.Ordinal >= 0 && h.Ordinal != ord) {
			continue
		}
		e.hookHit[fmt.Sprintf("ghost#%d", hi)] = true
		for _, st := range h.Stmts {
			se := mkEnv()
			if err := e.execGhostStmt(se, st, "ghost assertion "+when+" call "+name, at.Pos()); err != nil {
				return err
			}
		}
	}
	for ai, a := range e.fc.Asserts {
		if a.When != when || !matchCallee(name, a.Callee) || (a.Ordinal >= 0 && a.Ordinal != ord) {
			continue
		}
		e.hookHit[fmt.Sprintf("assert#%d", ai)] = true
		se := mkEnv()
		t, err := se.evalBool(a.Clause.Expr)
		if err != nil {
			return fmt.Errorf("%s:%d: assert: %v", a.Clause.File, a.Clause.Line, err)
		}
		e.oblige("assert", a.Clause.Label, a.Clause.Props, t, "assert "+when+" call "+name+": "+a.Clause.Text, at.Pos())
	}
	return nil
}

func (e *Enc) execGhostStmt(se *specEnv, st GhostStmt, what string, pos token.Pos) error {
	switch st.Kind {
	case "rewrite":
		val, ok := se.debugValue(st.Target)
		if !ok {
			return fmt.Errorf("%s:%d: rewrite: no SSA value for local %q", e.fc.File, st.Line, st.Target)
		}
		cur, ok := e.vals[val]
		if !ok {
			return fmt.Errorf("%s:%d: rewrite: local %q is not defined at this point", e.fc.File, st.Line, st.Target)
		}
		nv, err := se.eval(st.Value)
		if err != nil {
			return fmt.Errorf("%s:%d: rewrite: %v", e.fc.File, st.Line, err)
		}
		nt := nv.t
		if cur.Sort == SReal {
			nt = ToReal(nt)
		}
		e.oblige("rewrite", st.Label, st.Props, Eq(cur, nt), what+": "+st.Text, pos)
		e.vals[val] = nt
	case "assume":
		t, err := se.evalBool(st.Value)
		if err != nil {
			return fmt.Errorf("%s:%d: ghost assume: %v", e.fc.File, st.Line, err)
		}
		e.sc.AssertNamed(Implies(e.curGuard, t), "ASSUMED (unchecked) "+st.Text)
		e.assumed["explicit assumption in the contract of "+e.key+": "+st.Text] = true
	case "assert":
		t, err := se.evalBool(st.Value)
		if err != nil {
			return fmt.Errorf("%s:%d: ghost assert: %v", e.fc.File, st.Line, err)
		}
		e.oblige("PROTO", st.Label, st.Props, t, what+": "+st.Text, pos)
	case "assign":
		g, ok := e.prog.cs.Ghosts[st.Target]
		if !ok {
			return fmt.Errorf("%s:%d: unknown ghost variable %s", e.fc.File, st.Line, st.Target)
		}
		srt, err := ghostSort(g.Type)
		if err != nil {
			return err
		}
		v, err := se.eval(st.Value)
		if err != nil {
			return fmt.Errorf("%s:%d: ghost assign: %v", e.fc.File, st.Line, err)
		}
		if st.Index != nil {
			iv, err := se.eval(st.Index)
			if err != nil {
				return err
			}
			old := e.lookup(e.cur, "G$"+st.Target, srt)
			e.set(e.cur, "G$"+st.Target, Store(old, iv.t, v.t))
		} else {
			vt := v.t
			if srt == SReal {
				vt = ToReal(vt)
			}
			e.lookup(e.cur, "G$"+st.Target, srt)
			e.set(e.cur, "G$"+st.Target, vt)
		}
	}
	return nil
}

func (e *Enc) argType(c *ssa.CallCommon, i int) types.Type {
	if i < len(c.Args) {
		return c.Args[i].Type()
	}
	return nil
}

// ---------------------------------------------------------------------------

func (e *Enc) execCall(x *ssa.Call) error {
	res, err := e.doCall(x, x.Common(), nil)
	if err != nil {
		return err
	}
	e.bindResults(x, res)
	return nil
}

func (e *Enc) bindResults(x *ssa.Call, res []Term) {
	sig := x.Common().Signature()
	n := sig.Results().Len()
	switch {
	case n == 0:
		e.vals[x] = IntLit(0)
	case n == 1:
		e.define(x, res[0])
	default:
		e.tuples[x] = res
		e.vals[x] = IntLit(0)
	}
}

func (e *Enc) freshResults(sig *types.Signature) []Term {
	var out []Term
	for i := 0; i < sig.Results().Len(); i++ {
		t := sig.Results().At(i).Type()
		r := e.fresh("ret", e.tr.sortOf(t))
		e.sc.Assert(Implies(e.curGuard, e.tr.rangeAssumption(r, t, 0)))
		out = append(out, r)
	}
	return out
}

// doCall performs a call; argOverride supplies pre-evaluated argument terms (deferred calls).
func (e *Enc) doCall(ci ssa.CallInstruction, c *ssa.CallCommon, argOverride []Term) ([]Term, error) {
	var args []Term
	if argOverride != nil {
		args = argOverride
	} else {
		args = e.evalArgs(c)
	}
	if err := e.runHooks("before", ci, args, nil); err != nil {
		return nil, err
	}
	res, err := e.doCallInner(ci, c, args)
	if err != nil {
		return nil, err
	}
	// math.* functions accept and propagate non-finite values without panicking: the result inherits the taint
	if isMathCall(c) {
		if tc, ok := e.taintOf(args...); ok {
			for _, r := range res {
				if r.Sort == SReal {
					e.addTaintDeep(r, tc)
				}
			}
		}
	}
	if err := e.runHooks("after", ci, args, res); err != nil {
		return nil, err
	}
	// other threads may run between this step and the next one
	if err := e.envStep(ci); err != nil {
		return nil, err
	}
	return res, nil
}

// envStep applies the function's declared interference (if any): the shared state changes as the
// environment fnspec allows. Applied at entry and after every call (atomic operations are calls).
func (e *Enc) envStep(ci ssa.CallInstruction) error {
	if e.fc == nil || len(e.fc.Interference) == 0 {
		return nil
	}
	if ci != nil {
		if _, isDefer := ci.(*ssa.Defer); isDefer {
			return nil
		}
	}
	for _, d := range e.fc.Interference {
		spec := e.prog.cs.FnSpecs[d.Spec]
		if spec == nil {
			return fmt.Errorf("%s: interference: unknown fnspec %s", e.key, d.Spec)
		}
		se := e.specEnv(e.entry, e.cur, nil)
		var args []Term
		for _, ax := range d.Args {
			v, err := se.eval(ax)
			if err != nil {
				return fmt.Errorf("%s: interference %s argument: %v", e.key, d.Spec, err)
			}
			args = append(args, v.t)
		}
		if _, err := e.applyContract(nil, spec, nil, "env:"+d.Spec, args, nil, nil, nil); err != nil {
			return err
		}
		e.assumed["interference: between any two steps of "+e.key+" other threads change the shared state only as fnspec "+d.Spec+" allows (rely condition; each atomic operation is one indivisible step)"] = true
	}
	return nil
}

func (e *Enc) evalArgs(c *ssa.CallCommon) []Term {
	var args []Term
	if c.IsInvoke() {
		args = append(args, e.val(c.Value))
	}
	for _, a := range c.Args {
		// receiver addresses of atomic cells / opaque structs are handled as l-values by builtins
		if e.isAddrValue(a) {
			args = append(args, T("ADDR", SInt))
			continue
		}
		av := e.val(a)
		if av.Sort == SReal && !isMathCall(c) {
			e.finiteUse(nil, "passed to a call", av)
		}
		args = append(args, av)
	}
	return args
}

// isAddrValue: FieldAddr/IndexAddr/local Alloc values that have not been materialised as terms.
func (e *Enc) isAddrValue(v ssa.Value) bool {
	if _, ok := e.vals[v]; ok {
		return false
	}
	switch v.(type) {
	case *ssa.FieldAddr, *ssa.IndexAddr:
		return true
	case *ssa.Alloc:
		return true
	}
	return false
}

// argTerm materialises argument i as a term (addresses become integers).
func (e *Enc) argTerm(c *ssa.CallCommon, args []Term, i int) Term {
	off := 0
	if c.IsInvoke() {
		off = 1
	}
	if args[i].S == "ADDR" {
		args[i] = e.val(c.Args[i-off])
	}
	return args[i]
}

// isArbitrary: v may hold an arbitrary value produced by user code: the value returned by recover(), a parameter the
// contract declares `arbitrary`, or something obtained from one by a type assertion or an interface conversion. Calling
// a method of such a value (directly, or inside errors.Is/As/Unwrap) runs user code, which may panic; fmt and log/slog
// recover from panics of the methods they call, so formatting it is safe.
func (e *Enc) isArbitrary(v ssa.Value) bool {
	return e.isArbitraryRec(v, map[ssa.Value]bool{})
}

func (e *Enc) isArbitraryRec(v ssa.Value, visiting map[ssa.Value]bool) bool {
	if visiting[v] {
		return false
	}
	visiting[v] = true
	switch x := v.(type) {
	case *ssa.Parameter:
		if e.arbParams[x] {
			return true
		}
		if e.fc != nil && x.Parent() == e.topFn {
			for i, n := range e.fc.Arbitrary {
				_ = i
				if n == x.Name() {
					return true
				}
			}
			// a renamed parameter is known by its recorded name
			for i, prm := range e.topFn.Params {
				if prm == x {
					e.prog.loadSignatures()
					if rs, ok := e.prog.sigs[e.prog.funcKey(e.topFn)]; ok && i < len(rs.Params) {
						for _, n := range e.fc.Arbitrary {
							if n == rs.Params[i] {
								return true
							}
						}
					}
				}
			}
		}
		return false
	case *ssa.Call:
		if b, ok := x.Call.Value.(*ssa.Builtin); ok && b.Name() == "recover" {
			return true
		}
		return false
	case *ssa.TypeAssert:
		return e.isArbitraryRec(x.X, visiting)
	case *ssa.Extract:
		if ta, ok := x.Tuple.(*ssa.TypeAssert); ok && x.Index == 0 {
			return e.isArbitraryRec(ta.X, visiting)
		}
		return false
	case *ssa.ChangeInterface:
		return e.isArbitraryRec(x.X, visiting)
	case *ssa.MakeInterface:
		return e.isArbitraryRec(x.X, visiting)
	case *ssa.Phi:
		for _, ed := range x.Edges {
			if e.isArbitraryRec(ed, visiting) {
				return true
			}
		}
		return false
	}
	return false
}

// mayPanicHere adds an exceptional edge at the current point: the step may panic with an unknown non-nil value.
func (e *Enc) mayPanicHere(reason string) {
	exc := e.fresh("exc", SBool)
	pv := e.fresh("panicval", SIface)
	g := And(e.curGuard, exc)
	e.sc.Assert(Implies(g, Not(Eq(App(SInt, "ityp", pv), IntLit(0)))))
	post := e.cur
	e.cur = e.copyState(post)
	e.raise(g, pv)
	e.cur = e.copyState(post)
	e.pushExtra(Not(exc))
	e.abstracted["may panic: "+reason] = true
}

func (e *Enc) doCallInner(ci ssa.CallInstruction, c *ssa.CallCommon, args []Term) ([]Term, error) {
	sig := c.Signature()
	if c.IsInvoke() && e.isArbitrary(c.Value) {
		e.mayPanicHere("method " + c.Method.Name() + " of an arbitrary user value (a recovered panic value) is user code")
	}
	if fn := c.StaticCallee(); fn != nil && !c.IsInvoke() {
		anyArb := false
		for _, a := range c.Args {
			anyArb = anyArb || e.isArbitrary(a)
		}
		if anyArb {
			switch shortFuncName(fn) {
			case "errors.Is", "errors.As", "errors.Unwrap":
				e.mayPanicHere(shortFuncName(fn) + " calls the Is/As/Unwrap methods of an arbitrary user value")
			}
			if fc := e.contractOf(fn); fc != nil {
				for i, a := range c.Args {
					if !e.isArbitrary(a) || i >= len(fn.Params) {
						continue
					}
					declared := false
					for _, n := range fc.Arbitrary {
						declared = declared || n == fn.Params[i].Name()
					}
					if !declared {
						pos := token.NoPos
						if ci != nil {
							pos = ci.Pos()
						}
						e.oblige("PROTO", "arbitrary-arg", nil, Not(e.curGuard), "an arbitrary user value (a recovered panic value) is passed to "+shortFuncName(fn)+" as "+fn.Params[i].Name()+", which its contract does not declare `arbitrary`: the callee may call its methods, which are user code", pos)
					}
				}
			} else if fn.Pkg != nil && strings.HasPrefix(fn.Pkg.Pkg.Path(), e.prog.modPath) {
				// contract-less module helper (inlined below): its parameters inherit the property
				for i, a := range c.Args {
					if e.isArbitrary(a) && i < len(fn.Params) {
						if e.arbParams == nil {
							e.arbParams = map[*ssa.Parameter]bool{}
						}
						e.arbParams[fn.Params[i]] = true
					}
				}
			}
		}
	}
	if c.IsInvoke() {
		return e.callExternal(ci, c, "invoke:"+types.TypeString(c.Value.Type(), nil)+"."+c.Method.Name(), args)
	}
	switch v := c.Value.(type) {
	case *ssa.Builtin:
		return e.callBuiltin(ci, c, v, args)
	case *ssa.Function:
		return e.callStatic(ci, c, v, args, nil)
	case *ssa.MakeClosure:
		var binds []Term
		for _, b := range v.Bindings {
			binds = append(binds, e.valOrAddr(b))
		}
		return e.callStatic(ci, c, v.Fn.(*ssa.Function), args, binds)
	}
	// dynamic call through a function value
	fv := e.val(c.Value)
	e.oblige("SAFE.nil", "", nil, Not(Eq(fv, IntLit(0))), "call of nil function value "+e.dynName(c.Value), ci.Pos())
	name := e.dynName(c.Value)
	if e.fc != nil {
		for _, d := range e.fc.DynCalls {
			if d.Name == name && strings.HasPrefix(d.Spec, "method ") {
				// the callee is a bound method value: prove it, then use the method's own contract
				target := strings.TrimSpace(strings.TrimPrefix(d.Spec, "method "))
				mfn := e.prog.lookupFunc(target)
				if mfn == nil {
					return nil, fmt.Errorf("%s: dyncall %s: method %s not found", e.key, name, target)
				}
				mfc := e.contractOf(mfn)
				if mfc == nil || !d.HasArgs || len(d.Args) < 1 {
					return nil, fmt.Errorf("%s: dyncall %s: method %s needs a contract and a receiver argument", e.key, name, target)
				}
				se := e.specEnv(e.entry, e.cur, nil)
				var margs []Term
				for _, ax := range d.Args {
					v, err := se.eval(ax)
					if err != nil {
						return nil, fmt.Errorf("%s: dyncall %s argument: %v", e.key, name, err)
					}
					margs = append(margs, v.t)
				}
				e.sc.DeclareFun("fn_code", []string{SInt}, SInt)
				e.sc.DeclareFun("fn_fv0_Int", []string{SInt}, SInt)
				bound := e.prog.fnTermByName(mfn.String() + "$bound")
				e.oblige("PROTO.bound", "", nil, And(Eq(App(SInt, "fn_code", fv), bound), Eq(App(SInt, "fn_fv0_Int", fv), margs[0])),
					"the called function value is the bound method "+target+" of the stated receiver", ci.Pos())
				return e.applyContract(ci, mfc, mfn, shortFuncName(mfn), margs, nil, sig, e.deferExtra)
			}
			if d.Name == name && d.Spec == "any" {
				// declared, with nothing promised about it: everything may change
				e.assumed["dynamic call of "+name+" in "+e.key+": declared `any`, all heaps havocked, assumed not to panic"] = true
				e.cur = e.havocAll(e.cur)
				return e.freshResults(sig), nil
			}
			if d.Name == name {
				spec, ok := e.prog.cs.FnSpecs[d.Spec]
				if !ok {
					return nil, fmt.Errorf("%s: unknown fnspec %s", e.key, d.Spec)
				}
				for i := range args {
					e.argTerm(c, args, i)
				}
				if d.HasArgs {
					se := e.specEnv(e.entry, e.cur, nil)
					args = nil
					for _, ax := range d.Args {
						v, err := se.eval(ax)
						if err != nil {
							return nil, fmt.Errorf("%s: dyncall %s argument: %v", e.key, name, err)
						}
						args = append(args, v.t)
					}
				}
				return e.applyContract(ci, spec, nil, "dyn:"+name, args, nil, sig, nil)
			}
		}
	}
	// unknown callee: everything may change. In a function under contract every call through a function value must be
	// declared (`dyncall <name> : <fnspec>` or `dyncall <name> : any`): an undeclared one is a call the contract's
	// author never saw (e.g. a second evaluation of a stateful rate function added for a log line)
	if e.fc != nil && e.inl == "" {
		e.oblige("PROTO", "undeclared-call", nil, Not(e.curGuard), "call through the function value "+name+", which the contract does not declare with a dyncall clause", ci.Pos())
	}
	e.assumed["dynamic call of "+name+" in "+e.key+": no fnspec, all heaps havocked, assumed not to panic"] = true
	e.cur = e.havocAll(e.cur)
	return e.freshResults(sig), nil
}

func (e *Enc) valOrAddr(v ssa.Value) Term {
	return e.val(v)
}

func (e *Enc) callStatic(ci ssa.CallInstruction, c *ssa.CallCommon, fn *ssa.Function, args []Term, binds []Term) ([]Term, error) {
	sig := c.Signature()
	if fn.Pkg == nil || !strings.HasPrefix(fn.Pkg.Pkg.Path(), e.prog.modPath) || len(fn.Blocks) == 0 {
		name := fn.String()
		if fn.Pkg == nil && fn.Origin() != nil {
			name = fn.Origin().String()
		}
		return e.callExternal(ci, c, name, args)
	}
	for i := range args {
		e.argTerm(c, args, i)
	}
	// lock discipline across calls: the callee must not acquire a mutex the caller holds
	if _, used := e.heapSorts["L$held"]; used {
		for _, lr := range lockSetOf(fn, 0, map[*ssa.Function]bool{}) {
			if lr.param < len(args) && args[lr.param].Sort == SInt && args[lr.param].S != "ADDR" {
				addr := App(SInt, "+", args[lr.param], IntLit(int64(1000+lr.field)))
				held := e.lookup(e.cur, "L$held", ArraySort(SInt, SInt))
				cond := Eq(Select(held, addr), IntLit(0))
				if !lr.write && !(e.fc != nil && e.fc.Contended) {
					// a nested read lock is only a hazard while a writer can arrive
					cond = Not(Eq(Select(held, addr), IntLit(2)))
				}
				e.oblige("PROTO", "lock.nested", nil, cond,
					"call of "+shortFuncName(fn)+", which acquires a mutex ("+lr.desc+") that this thread may already hold", ci.Pos())
			}
		}
	}
	fc := e.contractOf(fn)
	if fc == nil {
		if e.canInline(fn) {
			return e.inlineCall(ci, fn, args)
		}
		e.assumed["call of "+shortFuncName(fn)+" (no contract): all heaps havocked, assumed not to panic"] = true
		e.cur = e.havocAll(e.cur)
		return e.freshResults(sig), nil
	}
	return e.applyContract(ci, fc, fn, shortFuncName(fn), args, binds, sig, e.deferExtra)
}

// applyContract: assert requires, havoc modifies, assume ensures. extra binds special identifiers
// (panicking / recovered) for deferred `recovers` callees.
func (e *Enc) applyContract(ci ssa.CallInstruction, fc *FuncContract, fn *ssa.Function, name string, args []Term, binds []Term, sig *types.Signature, extra map[string]specVal) ([]Term, error) {
	pos := token.NoPos
	if ci != nil {
		pos = ci.Pos()
	}
	pre := e.cur
	e.cur = e.copyState(pre)
	mk := func(old, cur *State, results []Term) *specEnv {
		se := &specEnv{e: e, old: old, cur: cur, binds: map[string]specVal{}, noLocal: true}
		if fn != nil {
			se.pkg = fn.Pkg.Pkg
			for i, p := range fn.Params {
				if i < len(args) {
					se.binds[p.Name()] = specVal{t: args[i], typ: p.Type()}
				e.prog.aliasName(se.binds, fn, "params", i, p.Name())
					e.prog.aliasName(se.binds, fn, "params", i, p.Name())
				}
			}
			for i, fv := range fn.FreeVars {
				if i < len(binds) {
					se.binds[fv.Name()] = specVal{t: binds[i], typ: fv.Type(), cell: true}
					e.prog.aliasName(se.binds, fn, "freevars", i, fv.Name())
				}
			}
			if results != nil {
				rs := fn.Signature.Results()
				for i, r := range results {
					se.results = append(se.results, specVal{t: r, typ: rs.At(i).Type()})
					if n := rs.At(i).Name(); n != "" && n != "_" {
						se.binds[n] = specVal{t: r, typ: rs.At(i).Type()}
					}
				}
			}
		} else {
			se.pkg = e.prog.typesPkg(fc.PkgPath)
			for i, pn := range fc.Params {
				if i < len(args) {
					se.binds[pn] = specVal{t: args[i], typ: e.prog.resolveType(fc.PkgPath, fc.ParamTypes[i])}
				}
			}
			for i, r := range results {
				var ty types.Type
				if i < len(fc.ResultTypes) {
					ty = e.prog.resolveType(fc.PkgPath, fc.ResultTypes[i])
				}
				sv := specVal{t: r, typ: ty}
				se.results = append(se.results, sv)
				if i < len(fc.Results) {
					se.binds[fc.Results[i]] = sv
				}
			}
		}
		for k, v := range extra {
			se.binds[k] = v
		}
		return se
	}
	// 1. preconditions
	if fn != nil && fn.Signature.Recv() != nil && len(fn.Params) > 0 && len(args) > 0 {
		if _, isPtr := fn.Params[0].Type().Underlying().(*types.Pointer); isPtr {
			if !strings.Contains(args[0].S, "(+ ") && !strings.HasPrefix(args[0].S, "ref!") {
				e.oblige("SAFE.nil", "", nil, App(SBool, ">", args[0], IntLit(0)), "nil receiver in call of "+name, pos)
			}
		}
	}
	se := mk(pre, pre, nil)
	for k, cl := range fc.Requires {
		t, err := se.evalBool(cl.Expr)
		if err != nil {
			return nil, fmt.Errorf("%s:%d: requires of %s at call in %s: %v", cl.File, cl.Line, name, e.key, err)
		}
		lbl := cl.Label
		cls := fmt.Sprintf("requires@%s", name)
		if lbl == "" {
			lbl = fmt.Sprintf("%d.site%d", k, e.siteNo(cls))
		} else {
			lbl = fmt.Sprintf("%s.site%d", lbl, e.siteNo(cls+lbl))
		}
		e.oblige(cls, lbl, nil, t, "precondition of "+name+": "+cl.Text, pos)
	}
	// closure invariants are preconditions of static closure calls too
	for k, cl := range fc.Invs {
		if fn == nil || len(binds) == 0 {
			break
		}
		t, err := se.evalBool(cl.Expr)
		if err != nil {
			return nil, fmt.Errorf("%s:%d: inv of %s: %v", cl.File, cl.Line, name, err)
		}
		e.oblige(fmt.Sprintf("inv@%s", name), fmt.Sprintf("%d.site%d", k, e.siteNo("inv@"+name)), nil, t, "closure invariant of "+name+": "+cl.Text, pos)
	}
	// 2. frame: a contract without a modifies clause promises nothing about the heap (its body is not
	// frame-checked either), so the caller must assume everything may have changed
	if fc.modifiesAll() {
		before := e.cur
		e.cur = e.havocAll(e.cur)
		if len(fc.ModExcept) > 0 {
			for _, n := range e.exceptedHeaps(fc.ModExcept) {
				e.cur.vals[n] = e.lookup(before, n, e.heapSorts[n])
			}
			e.assumed["modifies allbut(...): the excepted ghost variables and the fields of types of the excepted packages are not changed by the callee (for dynamic callees: they cannot name those unexported fields and receive no pointer to such objects)"] = true
		}
	} else {
		for _, m := range fc.Modifies {
			ts, err := se.modTargets(m)
			if err != nil {
				return nil, fmt.Errorf("%s: modifies of %s: %v", e.key, name, err)
			}
			for _, mt := range ts {
				old := e.lookup(e.cur, mt.heap, mt.sort)
				if mt.whole {
					e.set(e.cur, mt.heap, e.fresh("hv_"+sanitize(mt.heap), mt.sort))
				} else {
					nv := e.fresh("mv", arrayValSort(mt.sort))
					e.set(e.cur, mt.heap, Store(old, mt.index, nv))
				}
			}
		}
		// the callee may allocate
		oldAlloc := e.lookup(e.cur, "alloc", SInt)
		na := e.fresh("alloc", SInt)
		e.sc.Assert(App(SBool, ">=", na, oldAlloc))
		e.set(e.cur, "alloc", na)
	}
	// scratch ghosts of the callee (reset at its entry, written by nobody else) are not part of anyone's frame:
	// they have an arbitrary value for the caller afterwards
	if fc.Target != "" {
		var scratch []string
		for g := range e.prog.cs.Ghosts {
			if e.prog.scratchGhostOwner(g) == fc.PkgPath+"."+fc.Target {
				if _, used := e.heapSorts["G$"+g]; used {
					scratch = append(scratch, "G$"+g)
				}
			}
		}
		sort.Strings(scratch)
		e.havocNames(e.cur, scratch)
	}
	// 3. results
	var results []Term
	if sig != nil {
		results = e.freshResults(sig)
		alloc := e.lookup(e.cur, "alloc", SInt)
		for i, r := range results {
			t := sig.Results().At(i).Type()
			switch t.Underlying().(type) {
			case *types.Pointer, *types.Map, *types.Chan, *types.Signature:
				e.sc.Assert(Implies(e.curGuard, App(SBool, "<=", r, alloc)))
			case *types.Slice:
				e.sc.Assert(Implies(e.curGuard, App(SBool, "<=", App(SInt, "sref", r), alloc)))
			}
		}
	}
	post := e.cur
	// 4. exceptional exit
	mayPanic := fc.MayPanic
	if fc.MayPanicArb && ci != nil && fn != nil {
		// the callee panics only through methods of its arbitrary parameters: none is passed an arbitrary value here
		mayPanic = false
		cc := ci.Common()
		for i, a := range cc.Args {
			if i < len(fn.Params) && e.isArbitrary(a) {
				for _, n := range fc.Arbitrary {
					if n == fn.Params[i].Name() {
						mayPanic = true
					}
				}
			}
		}
	}
	if mayPanic {
		exc := TTrue
		if !fc.PanicsAlways {
			exc = e.fresh("exc", SBool)
		}
		pe := mk(pre, post, nil)
		pv := e.fresh("panicval", SIface)
		pe.binds["panicValue"] = specVal{t: pv}
		g := And(e.curGuard, exc)
		e.sc.Assert(Implies(g, Not(Eq(App(SInt, "ityp", pv), IntLit(0)))))
		for _, cl := range fc.OnPanic {
			t, err := pe.evalBool(cl.Expr)
			if err != nil {
				return nil, fmt.Errorf("%s:%d: onpanic of %s: %v", cl.File, cl.Line, name, err)
			}
			e.sc.AssertNamed(Implies(g, t), "onpanic of "+name+": "+cl.Text)
		}
		e.cur = e.copyState(post)
		if ci != nil {
			// ghost updates on the exceptional edge of this call
			savedG, savedB, savedX := e.curGuard, e.blockGuard, e.extra
			e.curGuard = g
			if err := e.runHooks("onpanic", ci, args, nil); err != nil {
				return nil, err
			}
			e.curGuard, e.blockGuard, e.extra = savedG, savedB, savedX
		}
		e.raise(g, pv)
		// ghost updates made for the exceptional edge must not leak into the normal continuation
		e.cur = e.copyState(post)
		e.pushExtra(Not(exc))
	}
	// 5. postconditions
	qe := mk(pre, post, results)
	for _, cl := range fc.Ensures {
		t, err := qe.evalBool(cl.Expr)
		if err != nil {
			if strings.Contains(err.Error(), "unknown identifier") {
				// the clause speaks about a local variable of the callee (meaningful only inside its body): the caller
				// learns nothing from it (fewer assumptions: sound)
				e.abstracted[fmt.Sprintf("postcondition of %s not used at the call (it names a local of the callee): %s", name, cl.Text)] = true
				continue
			}
			return nil, fmt.Errorf("%s:%d: ensures of %s at call in %s: %v", cl.File, cl.Line, name, e.key, err)
		}
		e.sc.AssertNamed(Implies(e.curGuard, t), "ensures of "+name+": "+cl.Text)
	}
	for _, cl := range fc.Invs {
		if fn == nil || len(binds) == 0 {
			break
		}
		t, err := qe.evalBool(cl.Expr)
		if err != nil {
			return nil, err
		}
		e.sc.AssertNamed(Implies(e.curGuard, t), "closure invariant of "+name+" after call")
	}
	e.usedContracts[name] = true
	if fc.Target != "" {
		k := fc.PkgPath + "." + fc.Target
		if fc.Variant != "" {
			k += "@" + fc.Variant
		}
		if e.usedKeys == nil {
			e.usedKeys = map[string]bool{}
		}
		e.usedKeys[k] = true
	}
	if fc.Trusted {
		e.assumed["trusted contract of "+name+" (body not verified)"] = true
	}
	return results, nil
}

func (e *Enc) siteNo(key string) int {
	n := e.counters["site:"+key]
	e.counters["site:"+key] = n + 1
	return n
}

// pushExtra strengthens the guard for the rest of the current block.
func (e *Enc) pushExtra(t Term) {
	e.extra = append(e.extra, t)
	e.curGuard = And(append([]Term{e.blockGuard}, e.extra...)...)
}

// conditionally executes f under an additional condition, merging the state afterwards.
func (e *Enc) conditionally(cond Term, f func() error) error {
	if cond.S == "true" {
		return f()
	}
	pre := e.cur
	saved := len(e.extra)
	e.cur = e.copyState(pre)
	e.pushExtra(cond)
	if err := f(); err != nil {
		return err
	}
	inner := append([]Term{}, e.extra[saved+1:]...)
	e.extra = e.extra[:saved]
	post := e.cur
	e.cur = e.mergeStates([]*State{post, pre}, []Term{cond, TTrue})
	if len(inner) > 0 {
		e.extra = append(e.extra, Implies(cond, And(inner...)))
	}
	e.curGuard = And(append([]Term{e.blockGuard}, e.extra...)...)
	return nil
}

func (e *Enc) raise(cond Term, pv Term) {
	e.excs = append(e.excs, excEdge{cond: cond, state: e.cur, panicVal: pv})
	e.cur = e.copyState(e.cur)
}

// ---------------------------------------------------------------------------
// defers

func (e *Enc) execDefer(x *ssa.Defer) error {
	if li := e.inLoop(x.Block()); li {
		e.unsupported("defer inside a loop")
	}
	var args []Term
	c := x.Common()
	if c.IsInvoke() {
		args = append(args, e.val(c.Value))
	}
	for _, a := range c.Args {
		args = append(args, e.val(a))
	}
	if !c.IsInvoke() {
		if _, isFn := c.Value.(*ssa.Function); !isFn {
			if _, isBuiltin := c.Value.(*ssa.Builtin); !isBuiltin {
				if _, isClo := c.Value.(*ssa.MakeClosure); !isClo {
					e.deferCallee[x] = e.val(c.Value)
				}
			}
		}
	}
	e.deferReg[x] = e.curGuard
	e.deferArgs[x] = args
	e.deferOrd = append(e.deferOrd, x)
	return nil
}

func (e *Enc) inLoop(b *ssa.BasicBlock) bool {
	for _, li := range e.loopList {
		if li.body[b] {
			return true
		}
	}
	return false
}

// runDefers executes registered deferred calls in LIFO order. On the exceptional path
// (panicking=true) a callee whose contract says `recovers` clears the panic.
func (e *Enc) runDefers(panicking bool) error {
	for i := len(e.deferOrd) - 1; i >= 0; i-- {
		d := e.deferOrd[i]
		flag := e.deferReg[d]
		err := e.conditionally(flag, func() error {
			c := d.Common()
			var extra map[string]specVal
			recovers := false
			if fn := c.StaticCallee(); fn != nil {
				if fc := e.contractOf(fn); fc != nil && fc.Recovers {
					recovers = true
					extra = map[string]specVal{}
					if panicking {
						extra["panicking"] = specVal{t: e.stillPanicking}
						extra["recovered"] = specVal{t: Ite(e.stillPanicking, e.curPanicVal, T("(mkiface 0 0)", SIface))}
					} else {
						extra["panicking"] = specVal{t: TFalse}
						extra["recovered"] = specVal{t: T("(mkiface 0 0)", SIface)}
					}
				}
			}
			e.deferExtra = extra
			_, err := e.doCall(d, c, append([]Term{}, e.deferArgs[d]...))
			e.deferExtra = nil
			if err != nil {
				return err
			}
			if recovers && panicking {
				e.recoveredBy = append(e.recoveredBy, flag)
			} else if panicking && !recovers {
				// a deferred function without a `recovers` contract whose body (or a function literal inside it) calls
				// recover() may or may not stop the panic: both continuations are possible
				if fn := c.StaticCallee(); fn != nil && e.contractOf(fn) == nil && callsRecover(fn, 0) {
					maybe := e.fresh("mayrecover", SBool)
					e.recoveredBy = append(e.recoveredBy, And(flag, maybe))
					e.abstracted["deferred "+shortFuncName(fn)+" calls recover() and has no contract: it may or may not stop a panic"] = true
				}
			}
			return nil
		})
		if err != nil {
			return err
		}
		if panicking {
			// after a `recovers` deferred call ran, the panic is cleared
			if len(e.recoveredBy) > 0 {
				e.stillPanicking = And(e.stillPanicking, Not(e.recoveredBy[len(e.recoveredBy)-1]))
				e.recoveredBy = nil
			}
		}
	}
	return nil
}

// callsRecover: fn's body, or a function literal nested in it, contains a call of the builtin recover.
func callsRecover(fn *ssa.Function, depth int) bool {
	if depth > 3 {
		return false
	}
	for _, b := range fn.Blocks {
		for _, ins := range b.Instrs {
			if ci, ok := ins.(ssa.CallInstruction); ok {
				if bi, ok := ci.Common().Value.(*ssa.Builtin); ok && bi.Name() == "recover" {
					return true
				}
			}
		}
	}
	for _, af := range fn.AnonFuncs {
		if callsRecover(af, depth+1) {
			return true
		}
	}
	return false
}

// handleExceptional merges all exceptional edges, runs the defers and continues in the recover block.
func (e *Enc) handleExceptional() error {
	if len(e.excs) == 0 {
		return nil
	}
	var conds []Term
	var states []*State
	for _, x := range e.excs {
		conds = append(conds, x.cond)
		states = append(states, x.state)
	}
	pv := e.excs[len(e.excs)-1].panicVal
	for i := len(e.excs) - 2; i >= 0; i-- {
		pv = Ite(e.excs[i].cond, e.excs[i].panicVal, pv)
	}
	excCond := e.sc.Declare("g_exc", SBool)
	e.sc.Assert(Eq(excCond, Or(conds...)))
	e.cur = e.mergeStates(states, conds)
	e.blockGuard = excCond
	e.extra = nil
	e.curGuard = excCond
	e.excs = nil
	e.stillPanicking = TTrue
	e.curPanicVal = pv
	e.inHandler = true
	if err := e.runDefers(true); err != nil {
		return err
	}
	// defers that themselves panicked during the exceptional path: treated as final panics
	for _, x := range e.excs {
		e.panics = append(e.panics, x)
	}
	e.excs = nil
	still := e.stillPanicking
	e.panics = append(e.panics, excEdge{cond: And(e.curGuard, still), state: e.cur, panicVal: pv})
	recCond := And(e.curGuard, Not(still))
	if recCond.S == "false" {
		return nil
	}
	if e.fn.Recover != nil {
		order := e.rpo(e.fn.Recover)
		for i, b := range order {
			if i == 0 {
				if err := e.execBlockFrom(b, recCond, e.cur); err != nil {
					return err
				}
			} else if err := e.execBlock(b, false); err != nil {
				return err
			}
		}
		for _, x := range e.excs {
			e.panics = append(e.panics, x)
		}
		e.excs = nil
	} else {
		// no named results: the function returns zero values
		var rs []Term
		res := e.fn.Signature.Results()
		for i := 0; i < res.Len(); i++ {
			rs = append(rs, e.tr.zeroOf(res.At(i).Type()))
		}
		e.rets = append(e.rets, retEdge{recCond, e.cur, rs})
	}
	return nil
}

// execBlockFrom runs a block with an explicit entry guard and state (the recover block).
func (e *Enc) execBlockFrom(b *ssa.BasicBlock, g Term, st *State) error {
	gc := e.sc.Declare(fmt.Sprintf("g%s%d", e.inl, b.Index), SBool)
	e.sc.Assert(Eq(gc, g))
	e.guard[b] = gc
	e.curBlock = b
	e.blockGuard = gc
	e.extra = nil
	e.curGuard = gc
	e.cur = e.copyState(st)
	for _, ins := range b.Instrs {
		if err := e.execInstr(ins); err != nil {
			return err
		}
	}
	e.exitSt[b] = e.cur
	return nil
}

// ---------------------------------------------------------------------------
// function exit: postconditions, frame, panics, cover

func (e *Enc) checkExit() error {
	fc := e.fc
	// merged normal exit
	var conds []Term
	var states []*State
	for _, r := range e.rets {
		conds = append(conds, r.cond)
		states = append(states, r.state)
	}
	nres := e.fn.Signature.Results().Len()
	if len(e.rets) > 0 {
		exitG := e.sc.Declare("g_exit", SBool)
		e.sc.Assert(Eq(exitG, Or(conds...)))
		exitState := e.mergeStates(states, conds)
		var results []Term
		for i := 0; i < nres; i++ {
			v := e.rets[len(e.rets)-1].results[i]
			for k := len(e.rets) - 2; k >= 0; k-- {
				v = Ite(e.rets[k].cond, e.rets[k].results[i], v)
			}
			rc := e.sc.Declare(fmt.Sprintf("result%d", i), v.Sort)
			e.sc.Assert(Eq(rc, v))
			results = append(results, rc)
		}
		e.blockGuard, e.extra, e.curGuard = exitG, nil, exitG
		e.cur = e.copyState(exitState)
		exitState = e.cur
		if fc != nil {
			for hi, h := range fc.Hooks {
				if h.When != "exit" {
					continue
				}
				e.hookHit[fmt.Sprintf("ghost#%d", hi)] = true
				for _, st := range h.Stmts {
					se := e.specEnv(e.entry, e.cur, results)
					if err := e.execGhostStmt(se, st, "ghost assertion at exit", e.fn.Pos()); err != nil {
						return err
					}
				}
			}
			se := e.specEnv(e.entry, exitState, results)
			if results == nil {
				se = e.specEnv(e.entry, exitState, []Term{})
			}
			// With several return sites and no exit hooks the postconditions are proved once per return site, in
			// that site's own state: no if-then-else merged heaps, which keeps the queries small and stable. Each
			// clause is one obligation (the conjunction over the sites).
			hasExitHook := false
			for _, h := range fc.Hooks {
				if h.When == "exit" {
					hasExitHook = true
				}
			}
			perSite := !hasExitHook && len(e.rets) > 1 && len(e.rets) <= 8
			evalAt := func(cl Clause, what string) (Term, error) {
				if !perSite {
					return se.evalBool(cl.Expr)
				}
				var parts []Term
				for _, r := range e.rets {
					rse := e.specEnv(e.entry, r.state, r.results)
					if r.results == nil {
						rse = e.specEnv(e.entry, r.state, []Term{})
					}
					saveG := e.curGuard
					e.curGuard = r.cond
					t, err := rse.evalBool(cl.Expr)
					e.curGuard = saveG
					if err != nil {
						return Term{}, err
					}
					parts = append(parts, Implies(r.cond, t))
				}
				return And(parts...), nil
			}
			for _, cl := range fc.Ensures {
				t, err := evalAt(cl, "ensures")
				if err != nil {
					return fmt.Errorf("%s:%d: ensures: %v", cl.File, cl.Line, err)
				}
				e.oblige("ensures", cl.Label, cl.Props, t, "postcondition: "+cl.Text, e.fn.Pos())
			}
			for _, cl := range fc.Invs {
				t, err := evalAt(cl, "inv")
				if err != nil {
					return fmt.Errorf("%s:%d: inv: %v", cl.File, cl.Line, err)
				}
				e.oblige("inv.exit", cl.Label, cl.Props, t, "closure invariant re-established: "+cl.Text, e.fn.Pos())
			}
			if fc.Recovers {
				rec := e.lookup(exitState, "G$recovered", SBool)
				e.oblige("PROTO.recovers", "", nil, Implies(e.panicking, rec), "a `recovers` function calls recover() on every path", e.fn.Pos())
			}
			if err := e.checkFrame(exitState, se); err != nil {
				return err
			}
		}
		// lock discipline: every mutex acquired here is released on every normal way out
		if _, used := e.heapSorts["L$held"]; used {
			h0 := e.lookup(e.entry, "L$held", ArraySort(SInt, SInt))
			h1 := e.lookup(exitState, "L$held", ArraySort(SInt, SInt))
			if h0.S != h1.S {
				e.oblige("PROTO", "lock.balanced", nil, Eq(h0, h1), "the locks held at return are exactly those held at entry", e.fn.Pos())
			}
		}
		if fc == nil || !fc.PanicsAlways {
			e.cover("exit", exitG)
		}
	} else if fc == nil || !fc.PanicsAlways {
		e.warn("no normal return reachable")
	}
	// panic exits
	if fc != nil {
		for i, p := range e.panics {
			if p.cond.S == "false" {
				continue
			}
			e.blockGuard, e.extra, e.curGuard = p.cond, nil, p.cond
			if !fc.MayPanic {
				e.obligeG(TTrue, "nopanic", fmt.Sprintf("%d", i), nil, Not(p.cond), "the function must not exit by panic", e.fn.Pos())
				continue
			}
			se := e.specEnv(e.entry, p.state, nil)
			se.binds["panicValue"] = specVal{t: p.panicVal}
			for _, cl := range fc.OnPanic {
				t, err := se.evalBool(cl.Expr)
				if err != nil {
					return fmt.Errorf("%s:%d: onpanic: %v", cl.File, cl.Line, err)
				}
				lbl := cl.Label
				if lbl != "" {
					lbl = fmt.Sprintf("%s.%d", lbl, i)
				}
				e.obligeG(p.cond, "onpanic", lbl, cl.Props, t, "on panic: "+cl.Text, e.fn.Pos())
			}
			for _, cl := range fc.Invs {
				t, err := se.evalBool(cl.Expr)
				if err != nil {
					return err
				}
				e.obligeG(p.cond, "inv.onpanic", "", cl.Props, t, "closure invariant on panic: "+cl.Text, e.fn.Pos())
			}
		}
	}
	// block reachability
	var idx []int
	byIdx := map[int]*ssa.BasicBlock{}
	for b := range e.guard {
		idx = append(idx, b.Index)
		byIdx[b.Index] = b
	}
	sort.Ints(idx)
	for _, i := range idx {
		b := byIdx[i]
		if fc != nil && fc.Unreach[i] {
			continue
		}
		if e.guard[b].S == "true" || isSelectPanicBlock(b) {
			continue
		}
		e.cover(fmt.Sprintf("block%d", i), e.guard[b])
	}
	return nil
}

// checkFrame: heaps not listed in modifies are unchanged on pre-existing objects.
func (e *Enc) checkFrame(exit *State, se *specEnv) error {
	fc := e.fc
	if fc.modifiesAll() {
		// nothing promised, except the heaps excepted by allbut(...)
		if len(fc.ModExcept) > 0 {
			alloc0 := e.lookup(e.entry, "alloc", SInt)
			for _, n := range e.exceptedHeaps(fc.ModExcept) {
				srt := e.heapSorts[n]
				before := e.lookup(e.entry, n, srt)
				after := e.lookup(exit, n, srt)
				if before.S == after.S {
					continue
				}
				if strings.HasPrefix(n, "G$") {
					e.oblige("FRAME", sanitize(n), nil, Eq(before, after), "ghost variable "+n[2:]+" is excepted from the modifies clause", e.fn.Pos())
					continue
				}
				a := T("fa", SInt)
				body := Implies(App(SBool, "<=", a, alloc0), Eq(Select(after, a), Select(before, a)))
				e.oblige("FRAME", sanitize(n), nil, T(fmt.Sprintf("(forall ((fa Int)) %s)", body.S), SBool), n+" is excepted from the modifies clause", e.fn.Pos())
			}
		}
		return nil
	}
	pre := e.specEnv(e.entry, e.entry, nil)
	allowed := map[string][]Term{}
	whole := map[string]bool{}
	for _, m := range fc.Modifies {
		ts, err := pre.modTargets(m)
		if err != nil {
			return fmt.Errorf("%s: modifies: %v", e.key, err)
		}
		for _, t := range ts {
			if t.whole {
				whole[t.heap] = true
			} else {
				allowed[t.heap] = append(allowed[t.heap], t.index)
			}
		}
	}
	var names []string
	for n := range e.heapSorts {
		names = append(names, n)
	}
	sort.Strings(names)
	alloc0 := e.lookup(e.entry, "alloc", SInt)
	for _, n := range names {
		if n == "alloc" || strings.HasPrefix(n, "L$") || whole[n] {
			continue
		}
		srt := e.heapSorts[n]
		before := e.lookup(e.entry, n, srt)
		after := e.lookup(exit, n, srt)
		if before.S == after.S {
			continue
		}
		if strings.HasPrefix(n, "G$") {
			if n == "G$recovered" || e.prog.scratchGhostOwner(n[2:]) != "" {
				continue
			}
			e.oblige("FRAME", sanitize(n), nil, Eq(before, after), "ghost variable "+n[2:]+" is not in the modifies clause", e.fn.Pos())
			continue
		}
		// forall a. 0 < a <= alloc0 && a not allowed ==> after[a] == before[a]
		var ex []Term
		a := T("fa", SInt)
		for _, ix := range allowed[n] {
			ex = append(ex, Not(Eq(a, ix)))
		}
		body := Implies(And(append([]Term{App(SBool, "<=", a, alloc0)}, ex...)...), Eq(Select(after, a), Select(before, a)))
		q := T(fmt.Sprintf("(forall ((fa Int)) %s)", body.S), SBool)
		e.oblige("FRAME", sanitize(n), nil, q, "only the locations in the modifies clause change in "+n, e.fn.Pos())
	}
	return nil
}

// ---------------------------------------------------------------------------
// closures, go

func (e *Enc) execMakeClosure(x *ssa.MakeClosure) error {
	fn := x.Fn.(*ssa.Function)
	if err := e.runHooksNamed("before", "closure:"+fn.Name(), 0, x, nil, nil); err != nil {
		return err
	}
	id := e.fresh("clo", SInt)
	alloc := e.lookup(e.cur, "alloc", SInt)
	e.sc.Assert(App(SBool, ">", id, alloc))
	e.set(e.cur, "alloc", App(SInt, "+", id, IntLit(1)))
	e.define(x, id)
	e.sc.DeclareFun("fn_code", []string{SInt}, SInt)
	e.sc.Assert(Eq(App(SInt, "fn_code", e.vals[x]), e.fnTerm(fn)))
	var binds []Term
	for i, b := range x.Bindings {
		bt := e.val(b)
		binds = append(binds, bt)
		fname := fmt.Sprintf("fn_fv%d_%s", i, sanitize(bt.Sort))
		e.sc.DeclareFun(fname, []string{SInt}, bt.Sort)
		e.sc.Assert(Eq(App(bt.Sort, fname, e.vals[x]), bt))
	}
	// closure-state invariant must hold at creation
	if fc := e.contractOf(fn); fc != nil && len(fc.Invs) > 0 {
		se := &specEnv{e: e, old: e.cur, cur: e.cur, binds: map[string]specVal{}, noLocal: true, pkg: fn.Pkg.Pkg}
		for i, fv := range fn.FreeVars {
			se.binds[fv.Name()] = specVal{t: binds[i], typ: fv.Type(), cell: true}
		}
		for k, cl := range fc.Invs {
			t, err := se.evalBool(cl.Expr)
			if err != nil {
				return fmt.Errorf("%s:%d: closure invariant at creation in %s: %v", cl.File, cl.Line, e.key, err)
			}
			e.oblige("closure.init@"+shortFuncName(fn), fmt.Sprintf("%d", k), nil, t, "closure invariant holds when the closure is created: "+cl.Text, x.Pos())
		}
	}
	return nil
}

func (e *Enc) execGo(x *ssa.Go) error {
	c := x.Common()
	args := e.evalArgs(c)
	if err := e.runHooks("before", x, args, nil); err != nil {
		return err
	}
	if fn := c.StaticCallee(); fn != nil {
		if fc := e.contractOf(fn); fc != nil {
			for i := range args {
				e.argTerm(c, args, i)
			}
			var binds []Term
			if mc, ok := c.Value.(*ssa.MakeClosure); ok {
				for _, b := range mc.Bindings {
					binds = append(binds, e.val(b))
				}
			}
			se := &specEnv{e: e, old: e.cur, cur: e.cur, binds: map[string]specVal{}, noLocal: true, pkg: fn.Pkg.Pkg}
			for i, p := range fn.Params {
				se.binds[p.Name()] = specVal{t: args[i], typ: p.Type()}
				e.prog.aliasName(se.binds, fn, "params", i, p.Name())
			}
			for i, fv := range fn.FreeVars {
				if i < len(binds) {
					se.binds[fv.Name()] = specVal{t: binds[i], typ: fv.Type(), cell: true}
					e.prog.aliasName(se.binds, fn, "freevars", i, fv.Name())
				}
			}
			for k, cl := range fc.Requires {
				t, err := se.evalBool(cl.Expr)
				if err != nil {
					return fmt.Errorf("%s:%d: requires at go statement: %v", cl.File, cl.Line, err)
				}
				e.oblige("requires@go:"+shortFuncName(fn), fmt.Sprintf("%d.site%d", k, e.siteNo("go"+shortFuncName(fn))), nil, t, "precondition of spawned "+shortFuncName(fn)+": "+cl.Text, x.Pos())
			}
		}
	}
	// spawn discipline: a goroutine may only be started on a function that is itself under contract (it is then verified
	// as a thread of its own) or that the contract declares with `spawns <name>`; anything else runs concurrently with
	// the rest of the run and is verified nowhere
	underContract := false
	if fn := c.StaticCallee(); fn != nil && e.prog.contractOf(fn) != nil {
		underContract = true
	}
	if !underContract && e.fc != nil {
		name := e.callName(c)
		// each `spawns` clause licenses one go statement on a function without contract; the name in the clause is
		// documentation (matching by name would turn giving the goroutine's function literal a name into an alarm)
		if e.spawnSites == nil {
			e.spawnSites = map[ssa.Instruction]bool{}
		}
		e.spawnSites[x] = true
		declared := len(e.spawnSites) <= len(e.fc.Spawns)
		if !declared {
			e.oblige("PROTO", "spawn", nil, Not(e.curGuard), "a goroutine is started on "+name+", which is neither under contract nor declared by a `spawns` clause: it would run concurrently with the rest of the run, verified nowhere and joined by nobody", x.Pos())
		} else {
			e.assumed["goroutines declared by `spawns` clauses ("+name+") are not verified as threads of their own"] = true
		}
	}
	e.abstracted["go statement: the spawned thread is verified separately (if under contract); no effect on this thread's state"] = true
	return e.runHooks("after", x, args, nil)
}

// closesOnlyField: v is a load of a struct field declared `closesonly`.
func (e *Enc) closesOnlyField(v ssa.Value) bool {
	u, ok := v.(*ssa.UnOp)
	if !ok || u.Op != token.MUL {
		return false
	}
	fa, ok := u.X.(*ssa.FieldAddr)
	if !ok {
		return false
	}
	st := derefType(fa.X.Type())
	n, ok := st.(*types.Named)
	if !ok {
		return false
	}
	fname := st.Underlying().(*types.Struct).Field(fa.Field).Name()
	for _, co := range e.prog.cs.ClosesOnly {
		if n.Obj().Pkg() != nil && n.Obj().Pkg().Path() == co.PkgPath && n.Obj().Name() == co.Type && fname == co.Field {
			return true
		}
	}
	return false
}

// localClosesOnly: v is (a load of the cell of) a channel made in this function on which nothing is
// ever sent and which does not escape: its only uses here and in the closures capturing it are
// receives, select receive arms and close. A completed receive then means another thread closed it.
func (e *Enc) localClosesOnly(v ssa.Value) bool {
	var okUse func(val ssa.Value, in ssa.Instruction) bool
	passDepth := 0
	okUse = func(val ssa.Value, in ssa.Instruction) bool {
		switch u := in.(type) {
		case *ssa.UnOp:
			return u.Op == token.ARROW
		case *ssa.Select:
			for _, st := range u.States {
				if st.Chan == val && st.Dir != types.RecvOnly {
					return false
				}
			}
			return true
		case ssa.CallInstruction:
			if b, ok := u.Common().Value.(*ssa.Builtin); ok && b.Name() == "close" {
				return true
			}
			// handed to a module function (called or started as a goroutine) that itself only receives from it or
			// closes it
			if callee := u.Common().StaticCallee(); callee != nil && len(callee.Blocks) > 0 && !u.Common().IsInvoke() && passDepth < 2 {
				for i, a := range u.Common().Args {
					if a != val {
						continue
					}
					if i >= len(callee.Params) || callee.Params[i].Referrers() == nil {
						return false
					}
					passDepth++
					for _, r := range *callee.Params[i].Referrers() {
						if !okUse(callee.Params[i], r) {
							passDepth--
							return false
						}
					}
					passDepth--
				}
				return true
			}
			return false
		case *ssa.DebugRef:
			return true
		}
		return false
	}
	var cellOK func(cell ssa.Value, depth int) bool
	cellOK = func(cell ssa.Value, depth int) bool {
		if depth > 3 || cell.Referrers() == nil {
			return false
		}
		for _, r := range *cell.Referrers() {
			switch u := r.(type) {
			case *ssa.Store:
				if u.Addr != cell {
					return false
				}
				if _, isMake := u.Val.(*ssa.MakeChan); !isMake {
					return false
				}
			case *ssa.UnOp:
				if u.Op != token.MUL || u.Referrers() == nil {
					return false
				}
				for _, rr := range *u.Referrers() {
					if !okUse(u, rr) {
						return false
					}
				}
			case *ssa.MakeClosure:
				fn := u.Fn.(*ssa.Function)
				for i, b := range u.Bindings {
					if b == cell {
						if i >= len(fn.FreeVars) || !cellOK(fn.FreeVars[i], depth+1) {
							return false
						}
					}
				}
			case *ssa.DebugRef:
			default:
				return false
			}
		}
		return true
	}
	switch x := v.(type) {
	case *ssa.MakeChan:
		if x.Referrers() == nil {
			return false
		}
		for _, r := range *x.Referrers() {
			if st, ok := r.(*ssa.Store); ok && st.Val == x {
				if !cellOK(st.Addr, 0) {
					return false
				}
				continue
			}
			if !okUse(x, r) {
				return false
			}
		}
		return true
	case *ssa.UnOp:
		if x.Op != token.MUL {
			return false
		}
		if a, ok := x.X.(*ssa.Alloc); ok {
			return cellOK(a, 0)
		}
	}
	return false
}

// capturedPrivateChan: fv is a captured channel variable whose cell, in the function declaring it, holds a
// channel made there that is only received from / closed (localClosesOnly on the parent's cell).
func capturedPrivateChan(fv *ssa.FreeVar) bool {
	fn := fv.Parent()
	parent := fn.Parent()
	if parent == nil {
		return false
	}
	for _, b := range parent.Blocks {
		for _, ins := range b.Instrs {
			if mc, ok := ins.(*ssa.MakeClosure); ok && mc.Fn == ssa.Value(fn) {
				for i, bd := range mc.Bindings {
					if i < len(fn.FreeVars) && fn.FreeVars[i] == fv {
						a, isAlloc := bd.(*ssa.Alloc)
						if !isAlloc {
							return false
						}
						var e0 Enc
						// a load of the cell in the parent
						if a.Referrers() != nil {
							for _, r := range *a.Referrers() {
								if u, ok := r.(*ssa.UnOp); ok && u.Op == token.MUL {
									return e0.localClosesOnly(u)
								}
							}
						}
						return false
					}
				}
			}
		}
	}
	return false
}

// paramPrivateChan: p is a channel parameter of a module function that every static call or go statement in the module
// supplies with a channel made locally in the caller and only received from / closed (there and here).
func (pr *Prog) paramPrivateChan(fn *ssa.Function, idx int) bool {
	sites := 0
	var e0 Enc
	for _, f := range pr.funcs {
		for _, b := range f.Blocks {
			for _, ins := range b.Instrs {
				ci, ok := ins.(ssa.CallInstruction)
				if !ok || ci.Common().StaticCallee() != fn || ci.Common().IsInvoke() {
					continue
				}
				sites++
				if idx >= len(ci.Common().Args) || !e0.localClosesOnly(ci.Common().Args[idx]) {
					return false
				}
			}
		}
	}
	return sites > 0
}

// recvClosed: a completed receive from ch (a closes-only channel) means ch has been closed.
func (e *Enc) recvClosed(chv ssa.Value, guard Term) {
	name := "G$closedchans"
	cl := e.lookup(e.cur, name, ArraySort(SInt, SBool))
	if e.closesOnlyField(chv) {
		e.sc.AssertNamed(Implies(guard, Select(cl, e.val(chv))), "receive on a closes-only channel completed: it is closed")
		e.assumed["a receive on a channel nothing is sent on completes only after the channel was closed (Go channel semantics, trusted)"] = true
		return
	}
	if e.localClosesOnly(chv) {
		// the close happened in another thread: record it in this thread's view
		e.set(e.cur, name, Ite(guard, Store(cl, e.val(chv), TTrue), cl))
		e.assumed["a receive on a channel nothing is sent on completes only after the channel was closed (Go channel semantics, trusted)"] = true
	}
}

// onChanRecv: a completed receive on a closes-only channel means the channel has been closed
// (nothing is ever sent on it: site frame; close/receive happens-before: trusted Go semantics).
func (e *Enc) onChanRecv(x *ssa.UnOp) {
	e.recvClosed(x.X, e.curGuard)
	if err := e.recvHooks(x.X); err != nil {
		panic(unsupportedErr(err.Error()))
	}
}

// recvHooks: ghost hooks anchored at a completed receive, named after the call that produced the channel:
// `ghost after call recv:time.After : ...` runs when a receive on the result of a call to time.After completed;
// arg<i> are the arguments of that producing call. The anchor follows the value, not the position of the receive,
// so it survives moving the receive into a helper or another select.
func (e *Enc) recvHooks(ch ssa.Value) error {
	call, ok := ch.(*ssa.Call)
	if !ok || e.fc == nil {
		return nil
	}
	name := "recv:" + e.callName(call.Common())
	has := false
	for _, h := range e.fc.Hooks {
		has = has || matchCallee(name, h.Callee)
	}
	if !has {
		return nil
	}
	var args []Term
	for _, a := range call.Common().Args {
		if t, ok := e.vals[a]; ok {
			args = append(args, t)
		} else {
			args = append(args, e.val(a))
		}
	}
	return e.runHooksNamed("after", name, -1, call, args, nil)
}

// onSelect: ghost hooks anchored at select arms: `ghost after call select:arm<k> : ...` runs when arm k was chosen.
func (e *Enc) onSelect(x *ssa.Select, idx Term) {
	for k, st := range x.States {
		if st.Dir == types.RecvOnly {
			e.recvClosed(st.Chan, And(e.curGuard, Eq(idx, IntLit(int64(k)))))
		}
	}
	if e.fc == nil {
		return
	}
	for k, st := range x.States {
		if st.Dir != types.RecvOnly {
			continue
		}
		ch := st.Chan
		if err := e.conditionally(Eq(idx, IntLit(int64(k))), func() error { return e.recvHooks(ch) }); err != nil {
			panic(unsupportedErr(err.Error()))
		}
	}
	if e.inl != "" {
		// positional select hooks of the contract speak about the selects of the function itself, not about a select
		// inside a helper that is inlined into it (value-anchored recv: hooks above do apply there)
		return
	}
	for k := range x.States {
		k := k
		name := fmt.Sprintf("select:arm%d", k)
		has := false
		for _, h := range e.fc.Hooks {
			if h.Callee == name {
				has = true
			}
		}
		if !has {
			continue
		}
		err := e.conditionally(Eq(idx, IntLit(int64(k))), func() error {
			return e.runHooksNamed("after", name, 0, x, nil, nil)
		})
		if err != nil {
			panic(unsupportedErr(err.Error()))
		}
	}
}

// sendHookName: a blocking send statement (ssa.Send: not an arm of a select) on a channel read from a struct field
// is named `send:<field>`; on anything else `send:?`.
func sendHookName(ch ssa.Value) string {
	if u, ok := ch.(*ssa.UnOp); ok && u.Op == token.MUL {
		if fa, ok := u.X.(*ssa.FieldAddr); ok {
			if st, ok := derefType(fa.X.Type()).Underlying().(*types.Struct); ok {
				return "send:" + st.Field(fa.Field).Name()
			}
		}
	}
	return "send:?"
}

// onSend: ghost hooks anchored at an unconditional send: `ghost after call send:<field> : ...` runs when the send
// statement completed. A send that was turned into an arm of a select (possibly with a default) is no ssa.Send and
// fires nothing, so a ghost counter of requests stays behind and the hook is reported as never hit. The send itself
// (buffering, the receiver) stays abstracted.
func (e *Enc) onSend(x *ssa.Send) error {
	if e.fc == nil {
		return nil
	}
	name := sendHookName(x.Chan)
	for _, h := range e.fc.Hooks {
		if h.Callee == name {
			return e.runHooksNamed("after", name, -1, x, nil, nil)
		}
	}
	return nil
}

// callWrites adds the writes of a call inside a loop to ws; returns true when everything may change.
func (e *Enc) callWrites(li *loopInfo, ci ssa.CallInstruction, ws writeSets) bool {
	c := ci.Common()
	// ghost variables assigned by hooks anchored at this call
	if e.fc != nil && len(e.fc.Hooks) > 0 {
		if e.ordCache == nil {
			e.ordCache = e.callOrdinals()
		}
		name := e.callName(c)
		ord := e.ordCache[ci.(ssa.Instruction)]
		for _, h := range e.fc.Hooks {
			if h.When == "exit" || h.When == "entry" || !matchCallee(name, h.Callee) || (h.Ordinal >= 0 && h.Ordinal != ord) {
				continue
			}
			for _, st := range h.Stmts {
				if st.Kind == "assign" {
					if g, ok := e.prog.cs.Ghosts[st.Target]; ok {
						if srt, err := ghostSort(g.Type); err == nil {
							ws.whole("G$"+st.Target, srt)
						}
					}
				}
			}
		}
	}
	// a go statement has no effect on this thread's state (the spawned thread is verified separately)
	if _, isGo := ci.(*ssa.Go); isGo {
		return false
	}
	// atomic cells and other builtin receivers: like a store through the receiver
	if !c.IsInvoke() {
		if fn, ok := c.Value.(*ssa.Function); ok && strings.HasPrefix(fn.String(), "(*sync/atomic.") {
			m := fn.Name()
			if m == "Store" || m == "Add" || m == "Swap" || m == "CompareAndSwap" {
				e.storeWrites(li, c.Args[0], ws)
			}
			return false
		}
	}
	if b, ok := c.Value.(*ssa.Builtin); ok && !c.IsInvoke() {
		switch b.Name() {
		case "append":
			// writes only a freshly allocated backing array
			if sl, ok := c.Args[0].Type().Underlying().(*types.Slice); ok {
				ws.get("E$"+e.tr.typeID(sl.Elem()), ArraySort(SInt, ArraySort(SInt, e.tr.sortOf(sl.Elem()))))
			}
			return false
		case "len", "cap", "min", "max", "print", "println", "recover", "panic":
			return false
		}
	}
	names, all := e.callModifies(ci)
	if all {
		return true
	}
	// precise targets when the callee has a contract / fnspec and every argument is loop-invariant
	var fc *FuncContract
	var fn *ssa.Function
	if c.IsInvoke() {
		fc = nil
	} else if f := c.StaticCallee(); f != nil {
		fn = f
		fc = e.contractOf(f)
	} else if e.fc != nil {
		name := e.dynName(c.Value)
		for _, d := range e.fc.DynCalls {
			if d.Name == name {
				fc = e.prog.cs.FnSpecs[d.Spec]
			}
		}
	}
	if fc != nil && !fc.modifiesAll() {
		inv := true
		var args []Term
		for _, a := range c.Args {
			if !e.definedOutside(li, a) {
				// an argument computed inside the loop: a chain of field loads from a loop-invariant root is
				// evaluated in the state at loop entry (the later check that no address term reads a heap the
				// loop writes keeps this sound); anything else is harmless unless a modifies target mentions it
				if t, ok := e.loadChainTerm(li, a, 0); ok {
					args = append(args, t)
					continue
				}
				args = append(args, T("POISON", e.tr.sortOf(a.Type())))
				continue
			}
			args = append(args, e.val(a))
		}
		if inv {
			se := &specEnv{e: e, old: e.cur, cur: e.cur, binds: map[string]specVal{}, noLocal: true, pure: true}
			if fn != nil {
				se.pkg = fn.Pkg.Pkg
				for i, p := range fn.Params {
					if i < len(args) {
						se.binds[p.Name()] = specVal{t: args[i], typ: p.Type()}
						e.prog.aliasName(se.binds, fn, "params", i, p.Name())
				e.prog.aliasName(se.binds, fn, "params", i, p.Name())
					e.prog.aliasName(se.binds, fn, "params", i, p.Name())
					}
				}
				if mc, ok := c.Value.(*ssa.MakeClosure); ok {
					for i, fv := range fn.FreeVars {
						if i < len(mc.Bindings) && e.definedOutside(li, mc.Bindings[i]) {
							se.binds[fv.Name()] = specVal{t: e.val(mc.Bindings[i]), typ: fv.Type(), cell: true}
						} else {
							se.binds[fv.Name()] = specVal{t: T("POISON", SInt), typ: fv.Type(), cell: true}
						}
					}
				}
			} else {
				se.pkg = e.prog.typesPkg(fc.PkgPath)
				for i, pn := range fc.Params {
					if i < len(args) {
						se.binds[pn] = specVal{t: args[i], typ: e.prog.resolveType(fc.PkgPath, fc.ParamTypes[i])}
					}
				}
			}
			okAll := true
			var tgts []modTarget
			for _, m := range fc.Modifies {
				ts, err := se.modTargets(m)
				if err != nil {
					okAll = false
					break
				}
				tgts = append(tgts, ts...)
			}
			if okAll {
				for _, t := range tgts {
					if t.whole || strings.Contains(t.index.S, "POISON") {
						ws.whole(t.heap, t.sort)
					} else {
						ws.addr(t.heap, t.sort, t.index)
					}
				}
				return false
			}
		}
	}
	for n, srt := range names {
		ws.whole(n, srt)
	}
	return false
}

// callModifies: static over-approximation of the heaps a call may write (for loop havoc).
func (e *Enc) callModifies(ci ssa.CallInstruction) (map[string]string, bool) {
	c := ci.Common()
	names := map[string]string{}
	if c.IsInvoke() {
		return names, false
	}
	switch v := c.Value.(type) {
	case *ssa.Builtin:
		switch v.Name() {
		case "append":
			if sl, ok := c.Args[0].Type().Underlying().(*types.Slice); ok {
				names["E$"+e.tr.typeID(sl.Elem())] = ArraySort(SInt, ArraySort(SInt, e.tr.sortOf(sl.Elem())))
			}
		case "delete":
			mt := c.Args[0].Type().Underlying().(*types.Map)
			names[e.mapDomHeap(mt)] = e.mapDomSort(mt)
		case "copy":
			return nil, true
		}
		return names, false
	}
	fn := c.StaticCallee()
	if fn == nil {
		// dynamic
		name := e.dynName(c.Value)
		if e.fc != nil {
			for _, d := range e.fc.DynCalls {
				if d.Name == name {
					if spec := e.prog.cs.FnSpecs[d.Spec]; spec != nil {
						return e.contractModNames(spec, nil, c)
					}
				}
			}
		}
		return nil, true
	}
	if fn.Pkg == nil || !strings.HasPrefix(fn.Pkg.Pkg.Path(), e.prog.modPath) || len(fn.Blocks) == 0 {
		return e.externalModNames(fn.String(), c), false
	}
	fc := e.contractOf(fn)
	if fc == nil {
		return nil, true
	}
	return e.contractModNames(fc, fn, c)
}

func (e *Enc) contractModNames(fc *FuncContract, fn *ssa.Function, c *ssa.CallCommon) (map[string]string, bool) {
	names := map[string]string{}
	if fc.modifiesAll() {
		return nil, true
	}
	se := &specEnv{e: e, old: e.entry, cur: e.entry, binds: map[string]specVal{}, noLocal: true, pure: true}
	if fn != nil {
		se.pkg = fn.Pkg.Pkg
		for _, p := range fn.Params {
			se.binds[p.Name()] = specVal{t: T("0", SInt), typ: p.Type()}
			if s := e.tr.sortOf(p.Type()); s != SInt {
				se.binds[p.Name()] = specVal{t: e.tr.zeroOfSort(s, p.Type()), typ: p.Type()}
			}
		}
		for _, p := range fn.FreeVars {
			se.binds[p.Name()] = specVal{t: e.tr.zeroOfSort(e.tr.sortOf(p.Type()), p.Type()), typ: p.Type(), cell: true}
		}
	} else {
		se.pkg = e.prog.typesPkg(fc.PkgPath)
		for i, pn := range fc.Params {
			ty := e.prog.resolveType(fc.PkgPath, fc.ParamTypes[i])
			srt := SInt
			if ty != nil {
				srt = e.tr.sortOf(ty)
			}
			se.binds[pn] = specVal{t: e.tr.zeroOfSort(srt, ty), typ: ty}
		}
	}
	for _, m := range fc.Modifies {
		ts, err := se.modTargets(m)
		if err != nil {
			return nil, true
		}
		for _, t := range ts {
			names[t.heap] = t.sort
		}
	}
	return names, false
}

// isSelectPanicBlock: the compiler-generated default of a blocking select ("blocking select matched no case").
func isSelectPanicBlock(b *ssa.BasicBlock) bool {
	for _, ins := range b.Instrs {
		switch x := ins.(type) {
		case *ssa.DebugRef, *ssa.Panic:
		case *ssa.MakeInterface:
			c, ok := x.X.(*ssa.Const)
			if !ok || c.Value == nil || !strings.Contains(c.Value.ExactString(), "blocking select matched no case") {
				return false
			}
		default:
			return false
		}
	}
	return true
}

// loadChainTerm: the value of v (defined inside loop li) when v is a chain of pointer-field loads
// rooted at a value defined outside the loop, read in the current (loop entry) state.
func (e *Enc) loadChainTerm(li *loopInfo, v ssa.Value, depth int) (Term, bool) {
	if depth > 6 {
		return Term{}, false
	}
	if e.definedOutside(li, v) {
		if t, ok := e.vals[v]; ok {
			return t, true
		}
		return Term{}, false
	}
	u, ok := v.(*ssa.UnOp)
	if !ok || u.Op != token.MUL {
		return Term{}, false
	}
	fa, ok := u.X.(*ssa.FieldAddr)
	if !ok {
		return Term{}, false
	}
	st := derefType(fa.X.Type())
	if _, isMod := e.tr.isModuleStruct(st); !isMod {
		return Term{}, false
	}
	ft := st.Underlying().(*types.Struct).Field(fa.Field).Type()
	switch ft.Underlying().(type) {
	case *types.Pointer:
	default:
		return Term{}, false
	}
	base, ok := e.loadChainTerm(li, fa.X, depth+1)
	if !ok {
		return Term{}, false
	}
	h := e.lookup(e.cur, heapFieldName(e.tr, st, fa.Field), ArraySort(SInt, e.tr.sortOf(ft)))
	return Select(h, base), true
}

// debugIdent: the source identifier a value is bound to (from its DebugRef), if any.
func debugIdent(v ssa.Value) string {
	if v.Referrers() == nil {
		return ""
	}
	for _, r := range *v.Referrers() {
		if d, ok := r.(*ssa.DebugRef); ok && !d.IsAddr {
			if id, ok := d.Expr.(*ast.Ident); ok && id.Name != "_" {
				return id.Name
			}
		}
	}
	return ""
}

// exceptedHeaps: the heaps named by an allbut(...) list: ghost variables by name, pkg:<name> = the
// field heaps of every struct type declared in a package with that name.
func (e *Enc) exceptedHeaps(except []string) []string {
	var out []string
	for n := range e.heapSorts {
		for _, x := range except {
			if strings.HasPrefix(x, "pkg:") {
				if strings.HasPrefix(n, "F$"+sanitize(strings.TrimPrefix(x, "pkg:"))+"_") {
					out = append(out, n)
				}
			} else if n == "G$"+x {
				out = append(out, n)
			}
		}
	}
	sort.Strings(out)
	return out
}

// lockRef: the callee locks the mutex stored in field `field` of the object its parameter `param` points to.
type lockRef struct {
	param int
	field int
	write bool
	desc  string
}

var lockSetCache = map[*ssa.Function][]lockRef{}

// lockSetOf: the mutexes (as fields of its pointer parameters) a module function acquires, directly or
// through static calls that pass the same parameter on (depth-limited).
func lockSetOf(fn *ssa.Function, depth int, visiting map[*ssa.Function]bool) []lockRef {
	if fn == nil || len(fn.Blocks) == 0 || depth > 3 || visiting[fn] {
		return nil
	}
	if r, ok := lockSetCache[fn]; ok && depth == 0 {
		return r
	}
	visiting[fn] = true
	defer delete(visiting, fn)
	paramIdx := func(v ssa.Value) int {
		for i, p := range fn.Params {
			if ssa.Value(p) == v {
				return i
			}
		}
		return -1
	}
	var out []lockRef
	seen := map[[3]int]bool{}
	add := func(l lockRef) {
		w := 0
		if l.write {
			w = 1
		}
		k := [3]int{l.param, l.field, w}
		if !seen[k] {
			seen[k] = true
			out = append(out, l)
		}
	}
	for _, b := range fn.Blocks {
		for _, ins := range b.Instrs {
			ci, ok := ins.(ssa.CallInstruction)
			if !ok {
				continue
			}
			if _, isGo := ins.(*ssa.Go); isGo {
				continue
			}
			if _, isDefer := ins.(*ssa.Defer); isDefer {
				// deferred lock calls are unusual; deferred unlocks are irrelevant here
			}
			c := ci.Common()
			callee := c.StaticCallee()
			if callee == nil {
				continue
			}
			name := callee.String()
			if name == "(*sync.Mutex).Lock" || name == "(*sync.RWMutex).Lock" || name == "(*sync.RWMutex).RLock" {
				if fa, ok := c.Args[0].(*ssa.FieldAddr); ok {
					if pi := paramIdx(fa.X); pi >= 0 {
						st := derefType(fa.X.Type()).Underlying().(*types.Struct)
						add(lockRef{param: pi, field: fa.Field, write: name != "(*sync.RWMutex).RLock", desc: fn.Params[pi].Name() + "." + st.Field(fa.Field).Name()})
					}
				}
				continue
			}
			if callee.Pkg == nil || len(callee.Blocks) == 0 {
				continue
			}
			for _, sub := range lockSetOf(callee, depth+1, visiting) {
				if sub.param < len(c.Args) {
					if pi := paramIdx(c.Args[sub.param]); pi >= 0 {
						add(lockRef{param: pi, field: sub.field, write: sub.write, desc: sub.desc + " via " + callee.Name()})
					}
				}
			}
		}
	}
	if depth == 0 {
		lockSetCache[fn] = out
	}
	return out
}

// contractOf: the callee's contract as seen from the function being verified (same variant).
func (e *Enc) contractOf(f *ssa.Function) *FuncContract {
	v := ""
	if e.fc != nil {
		v = e.fc.Variant
	}
	return e.prog.contractOfVariant(f, v)
}


func isMathCall(c *ssa.CallCommon) bool {
	if c.IsInvoke() {
		return false
	}
	if fn, ok := c.Value.(*ssa.Function); ok && fn.Pkg != nil && fn.Pkg.Pkg.Path() == "math" {
		return true
	}
	return false
}

// addTaintDeep taints a result term: a constant directly, a compound term through its symbols.
func (e *Enc) addTaintDeep(t Term, cond Term) {
	if !strings.ContainsAny(t.S, "( ") {
		e.addTaint(t, cond)
		return
	}
	for _, m := range symRe.FindAllString(t.S, -1) {
		if strings.HasPrefix(m, "rnd!") || strings.HasPrefix(m, "v_") || strings.Contains(m, "!") {
			e.addTaint(Term{m, SReal}, cond)
		}
	}
}


// ---------------------------------------------------------------------------
// Inlining of module functions that have no contract: a helper extracted from (or always used by) a
// function under contract is executed in place, in the caller's state, so that moving code into an
// unexported helper does not turn the call into "everything may change". Restrictions: no defer,
// recover, go, select or closure creation in the helper, no recursion, nesting depth at most 3.
// Loops of the helper are numbered after the caller's loops and may be given invariants by the
// caller's contract (`loop k invariant`); spec names not found in the helper are looked up in the
// functions it is inlined into.

func (e *Enc) canInline(fn *ssa.Function) bool {
	if e.inlineDepth >= 3 || fn.Recover != nil || len(fn.Blocks) == 0 || e.inlining[fn] || len(fn.FreeVars) > 0 {
		return false
	}
	// (in a variant pass the inlined body runs under the same interference declaration as its caller: the
	// environment step is applied after each of its calls as well)
	n := 0
	for _, b := range fn.Blocks {
		for _, ins := range b.Instrs {
			n++
			switch ins.(type) {
			case *ssa.Defer, *ssa.Go, *ssa.RunDefers, *ssa.MakeClosure:
				return false
			}
		}
	}
	return n <= 400
}

func (e *Enc) inlineCall(ci ssa.CallInstruction, fn *ssa.Function, args []Term) ([]Term, error) {
	if e.inlining == nil {
		e.inlining = map[*ssa.Function]bool{}
	}
	e.inlining[fn] = true
	defer delete(e.inlining, fn)
	// save the caller's context
	sFn, sRets, sBlock, sInl, sEntryG, sExtra := e.fn, e.rets, e.curBlock, e.inl, e.entryGuard, e.extra
	sDebug, sOrd := e.debugNames, e.ordCache
	e.inlineSeq++
	e.inlineDepth++
	e.inl = fmt.Sprintf("i%d_", e.inlineSeq)
	e.fnStack = append(e.fnStack, sFn)
	e.fn = fn
	e.rets = nil
	e.debugNames = nil
	e.ordCache = nil
	e.entryGuard = e.curGuard
	for i, p := range fn.Params {
		if i < len(args) {
			e.vals[p] = args[i]
		}
	}
	e.findLoopsFor(fn)
	e.classifyLocalsOf(fn)
	var err error
	for _, b := range e.rpo(fn.Blocks[0]) {
		if err = e.execBlock(b, b == fn.Blocks[0]); err != nil {
			break
		}
	}
	rets := e.rets
	// restore
	e.fn, e.rets, e.curBlock, e.inl, e.entryGuard, e.extra = sFn, sRets, sBlock, sInl, sEntryG, sExtra
	e.debugNames, e.ordCache = sDebug, sOrd
	e.fnStack = e.fnStack[:len(e.fnStack)-1]
	e.inlineDepth--
	if err != nil {
		return nil, err
	}
	e.abstracted["call of "+shortFuncName(fn)+" (no contract): inlined"] = true
	sig := fn.Signature
	if len(rets) == 0 {
		// the helper never returns normally (always panics): nothing after the call is reachable
		ng := e.sc.Declare(fmt.Sprintf("g%sret", fmt.Sprintf("i%d_", e.inlineSeq)), SBool)
		e.sc.Assert(Eq(ng, TFalse))
		e.curGuard, e.blockGuard = ng, ng
		return e.freshResults(sig), nil
	}
	var conds []Term
	var states []*State
	for _, r := range rets {
		conds = append(conds, r.cond)
		states = append(states, r.state)
	}
	ng := e.sc.Declare(fmt.Sprintf("gret_i%d", e.inlineSeq), SBool)
	e.sc.AssertDef(ng.S, Eq(ng, Or(conds...)))
	e.cur = e.mergeStates(states, conds)
	e.curGuard, e.blockGuard = ng, ng
	var results []Term
	for i := 0; i < sig.Results().Len(); i++ {
		v := rets[len(rets)-1].results[i]
		for k := len(rets) - 2; k >= 0; k-- {
			v = Ite(rets[k].cond, rets[k].results[i], v)
		}
		rc := e.sc.Declare(fmt.Sprintf("ret_i%d_%d", e.inlineSeq, i), v.Sort)
		e.sc.AssertDef(rc.S, Eq(rc, v))
		results = append(results, rc)
	}
	return results, nil
}
