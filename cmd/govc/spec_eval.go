package main

// Evaluation of contract expressions to SMT terms in a given pair of states (old, current).

import (
	"fmt"
	"go/ast"
	"go/constant"
	"go/token"
	"go/types"
	"strings"

	"golang.org/x/tools/go/ssa"
)

type specVal struct {
	t     Term
	typ   types.Type // may be nil (pure logical value)
	isNil bool
	tuple []specVal
	pkg   *types.Package // identifier naming an imported package
	cell  bool           // a captured variable: t is the address of its cell, reads go through the heap
}

type specEnv struct {
	e       *Enc
	old     *State
	cur     *State
	binds   map[string]specVal
	loop    *loopInfo
	fn      *ssa.Function // function whose names are in scope (params, free vars, locals)
	pkg     *types.Package
	results []specVal
	noLocal bool // evaluating a callee contract at a call site: only binds are visible
	pure    bool // static pre-pass (loop write sets): no assertions may be added to the script
}

// specEnv for the function under verification.
func (e *Enc) specEnv(old, cur *State, results []Term) *specEnv {
	se := &specEnv{e: e, old: old, cur: cur, binds: map[string]specVal{}, fn: e.fn, pkg: e.fn.Pkg.Pkg}
	for i, p := range e.fn.Params {
		se.binds[p.Name()] = specVal{t: e.vals[p], typ: p.Type()}
		e.prog.aliasName(se.binds, e.fn, "params", i, p.Name())
	}
	for i, fv := range e.fn.FreeVars {
		if e.prog.recordedAsParam(e.fn, fv.Name()) {
			// the contract's name means the parameter that was called so when it was written (bound above under its
			// recorded name): a variable of that name captured since then must not take its place
			continue
		}
		se.binds[fv.Name()] = specVal{t: e.vals[fv], typ: fv.Type(), cell: true}
		e.prog.aliasName(se.binds, e.fn, "freevars", i, fv.Name())
	}
	if e.inl == "" {
		for n, v := range e.extraBinds {
			if _, taken := se.binds[n]; !taken {
				se.binds[n] = v
			}
		}
	}
	if results != nil {
		sig := e.fn.Signature.Results()
		for i, r := range results {
			se.results = append(se.results, specVal{t: r, typ: sig.At(i).Type()})
			if n := sig.At(i).Name(); n != "" && n != "_" {
				se.binds[n] = specVal{t: r, typ: sig.At(i).Type()}
			}
		}
	}
	return se
}

func (se *specEnv) clone() *specEnv {
	n := *se
	n.binds = map[string]specVal{}
	for k, v := range se.binds {
		n.binds[k] = v
	}
	return &n
}

func (se *specEnv) evalBool(x SExpr) (Term, error) {
	v, err := se.eval(x)
	if err != nil {
		return Term{}, err
	}
	if v.t.Sort != SBool {
		return Term{}, fmt.Errorf("expression %s is not boolean (sort %s)", x, v.t.Sort)
	}
	return v.t, nil
}

func ghostSort(ty string) (string, error) {
	switch strings.TrimSpace(ty) {
	case "int":
		return SInt, nil
	case "bool":
		return SBool, nil
	case "real":
		return SReal, nil
	case "map[int]int":
		return ArraySort(SInt, SInt), nil
	case "map[int]bool":
		return ArraySort(SInt, SBool), nil
	case "map[int]real":
		return ArraySort(SInt, SReal), nil
	case "string":
		return SString, nil
	case "map[string]int":
		return ArraySort(SString, SInt), nil
	case "map[string]real":
		return ArraySort(SString, SReal), nil
	case "map[string]bool":
		return ArraySort(SString, SBool), nil
	case "map[string]string":
		return ArraySort(SString, SString), nil
	case "map[int]string":
		return ArraySort(SInt, SString), nil
	}
	if strings.HasPrefix(strings.TrimSpace(ty), "[]") {
		// a ghost copy of a slice header: indexing reads the current heap
		return SSlice, nil
	}
	if strings.HasPrefix(strings.TrimSpace(ty), "*") {
		// a ghost pointer (names an object; fields are read from the current heap)
		return SInt, nil
	}
	return "", fmt.Errorf("unsupported ghost type %q", ty)
}

func (se *specEnv) ghost(name string) (specVal, bool, error) {
	g, ok := se.e.prog.cs.Ghosts[name]
	if !ok {
		if srt, isBuiltin := builtinGhosts[name]; isBuiltin {
			return specVal{t: se.e.lookup(se.cur, "G$"+name, srt)}, true, nil
		}
		return specVal{}, false, nil
	}
	srt, err := ghostSort(g.Type)
	if err != nil {
		return specVal{}, true, err
	}
	sv := specVal{t: se.e.lookup(se.cur, "G$"+name, srt)}
	if srt == SSlice || strings.HasPrefix(strings.TrimSpace(g.Type), "*") {
		sv.typ = se.e.prog.resolveType(g.PkgPath, strings.TrimSpace(g.Type))
		if sv.typ == nil {
			return specVal{}, true, fmt.Errorf("ghost %s: cannot resolve type %s", name, g.Type)
		}
	}
	return sv, true, nil
}

func (se *specEnv) eval(x SExpr) (specVal, error) {
	e := se.e
	switch n := x.(type) {
	case *SIntLit:
		return specVal{t: IntLitS(n.Val)}, nil
	case *SFltLit:
		return specVal{t: Term{floatLitSMT(n.Val), SReal}}, nil
	case *SStrLit:
		return specVal{t: StrLit(n.Val)}, nil
	case *SIdent:
		return se.evalIdent(n.Name)
	case *SSel:
		return se.evalSel(n)
	case *SIndex:
		xv, err := se.eval(n.X)
		if err != nil {
			return specVal{}, err
		}
		iv, err := se.eval(n.I)
		if err != nil {
			return specVal{}, err
		}
		return se.index(xv, iv, n)
	case *SCall:
		return se.evalCall(n)
	case *SUn:
		if n.Op == "&" {
			return se.evalAddr(n.X)
		}
		v, err := se.eval(n.X)
		if err != nil {
			return specVal{}, err
		}
		switch n.Op {
		case "!":
			if v.t.Sort != SBool {
				return specVal{}, fmt.Errorf("! applied to non-boolean %s", n.X)
			}
			return specVal{t: Not(v.t)}, nil
		case "-":
			return specVal{t: App(v.t.Sort, "-", v.t), typ: v.typ}, nil
		}
	case *SCond:
		c, err := se.evalBool(n.C)
		if err != nil {
			return specVal{}, err
		}
		a, err := se.eval(n.A)
		if err != nil {
			return specVal{}, err
		}
		b, err := se.eval(n.B)
		if err != nil {
			return specVal{}, err
		}
		a, b = unify(e, a, b)
		return specVal{t: Ite(c, a.t, b.t), typ: a.typ}, nil
	case *SQuant:
		ne := se.clone()
		var decl []string
		for _, v := range n.Vars {
			srt, err := ghostSort(v.Type)
			if err != nil {
				return specVal{}, err
			}
			e.freshCounter++
			name := fmt.Sprintf("q_%s_%d", v.Name, e.freshCounter)
			decl = append(decl, fmt.Sprintf("(%s %s)", name, srt))
			ne.binds[v.Name] = specVal{t: Term{name, srt}}
		}
		body, err := ne.evalBool(n.Body)
		if err != nil {
			return specVal{}, err
		}
		q := "exists"
		if n.Forall {
			q = "forall"
		}
		var names []string
		for _, v := range n.Vars {
			names = append(names, ne.binds[v.Name].t.S)
		}
		// "every index but e is unchanged" is an array equality: quantifier-free, so covers stay decidable
		if n.Forall && len(names) == 1 {
			if t, ok := frameAsStore(body.S, names[0]); ok {
				return specVal{t: Term{t, SBool}}, nil
			}
		}
		pats := triggerPatterns(body.S, names)
		if len(pats) > 0 {
			return specVal{t: Term{fmt.Sprintf("(%s (%s) (! %s %s))", q, strings.Join(decl, " "), body.S, strings.Join(pats, " ")), SBool}}, nil
		}
		return specVal{t: Term{fmt.Sprintf("(%s (%s) %s)", q, strings.Join(decl, " "), body.S), SBool}}, nil
	case *SBin:
		return se.evalBin(n)
	}
	return specVal{}, fmt.Errorf("cannot evaluate %s", x)
}

func floatLitSMT(s string) string {
	// decimal literal, possibly with exponent
	v := constant.MakeFromLiteral(s, token.FLOAT, 0)
	if v.Kind() == constant.Unknown {
		return s
	}
	// exact rational of the decimal literal (NOT rounded to float64: spec constants are reals)
	num, den := constant.Num(v), constant.Denom(v)
	ns, ds := num.ExactString(), den.ExactString()
	if ds == "1" {
		return ns + ".0"
	}
	return fmt.Sprintf("(/ %s.0 %s.0)", ns, ds)
}

func unify(e *Enc, a, b specVal) (specVal, specVal) {
	if a.isNil && !b.isNil {
		a = specVal{t: e.tr.zeroOfSort(b.t.Sort, b.typ), typ: b.typ}
	}
	if b.isNil && !a.isNil {
		b = specVal{t: e.tr.zeroOfSort(a.t.Sort, a.typ), typ: a.typ}
	}
	if a.t.Sort == SReal && b.t.Sort == SInt {
		b = specVal{t: ToReal(b.t)}
	}
	if b.t.Sort == SReal && a.t.Sort == SInt {
		a = specVal{t: ToReal(a.t)}
	}
	return a, b
}

func (se *specEnv) evalBin(n *SBin) (specVal, error) {
	e := se.e
	switch n.Op {
	case "&&", "||", "==>", "<==>":
		a, err := se.evalBool(n.L)
		if err != nil {
			return specVal{}, err
		}
		b, err := se.evalBool(n.R)
		if err != nil {
			return specVal{}, err
		}
		switch n.Op {
		case "&&":
			return specVal{t: And(a, b)}, nil
		case "||":
			return specVal{t: Or(a, b)}, nil
		case "==>":
			return specVal{t: Implies(a, b)}, nil
		default:
			return specVal{t: Eq(a, b)}, nil
		}
	}
	a, err := se.eval(n.L)
	if err != nil {
		return specVal{}, err
	}
	b, err := se.eval(n.R)
	if err != nil {
		return specVal{}, err
	}
	a, b = unify(e, a, b)
	if a.t.Sort != b.t.Sort {
		return specVal{}, fmt.Errorf("sort mismatch in %s: %s vs %s", n, a.t.Sort, b.t.Sort)
	}
	srt := a.t.Sort
	switch n.Op {
	case "==":
		return specVal{t: Eq(a.t, b.t)}, nil
	case "!=":
		return specVal{t: Not(Eq(a.t, b.t))}, nil
	case "<", "<=", ">", ">=":
		if srt == SString {
			return specVal{}, fmt.Errorf("string ordering not supported in specs")
		}
		return specVal{t: App(SBool, n.Op, a.t, b.t)}, nil
	case "+":
		if srt == SString {
			return specVal{t: App(SString, "str.++", a.t, b.t)}, nil
		}
		return specVal{t: App(srt, "+", a.t, b.t), typ: a.typ}, nil
	case "-", "*":
		return specVal{t: App(srt, n.Op, a.t, b.t), typ: a.typ}, nil
	case "/":
		if srt == SReal {
			return specVal{t: App(SReal, "/", a.t, b.t)}, nil
		}
		return specVal{t: App(SInt, "tdiv", a.t, b.t), typ: a.typ}, nil
	case "%":
		return specVal{t: App(SInt, "tmod", a.t, b.t), typ: a.typ}, nil
	}
	return specVal{}, fmt.Errorf("unknown operator %s", n.Op)
}

func (se *specEnv) evalIdent(name string) (specVal, error) {
	e := se.e
	switch name {
	case "true":
		return specVal{t: TTrue}, nil
	case "false":
		return specVal{t: TFalse}, nil
	case "nil":
		return specVal{isNil: true, t: IntLit(0)}, nil
	case "result", "retval":
		// `retval` always means the function's results (for functions that have a parameter called result)
		if v, ok := se.binds["result"]; ok && name == "result" {
			return v, nil
		}
		if len(se.results) == 1 {
			return se.results[0], nil
		}
		if len(se.results) > 1 {
			return specVal{tuple: se.results}, nil
		}
		return specVal{}, fmt.Errorf("'result' used but the function has no results here")
	case "panicking":
		if e.panicking.S != "" {
			return specVal{t: e.panicking}, nil
		}
	case "recovered":
		if e.panicVal.S != "" {
			return specVal{t: e.panicVal}, nil
		}
	}
	if v, ok := se.binds[name]; ok {
		if v.cell {
			t := derefType(v.typ)
			if c, isConst := se.e.fvConst[v.t.S]; isConst {
				return specVal{t: c, typ: t}, nil
			}
			rv := se.purify(se.e.loadPtr(se.cur, v.t, t))
			se.typed(rv, t)
			return specVal{t: rv, typ: t}, nil
		}
		return v, nil
	}
	if v, ok, err := se.ghost(name); ok {
		return v, err
	}
	if !se.noLocal && se.fn != nil {
		// loop-carried or local variables by source name
		if v, ok := se.localByName(name); ok {
			return v, nil
		}
		// inside an inlined helper: names of the functions it is inlined into
		for k := len(se.e.fnStack) - 1; k >= 0; k-- {
			if v, ok := se.e.nameInFunc(se.e.fnStack[k], name); ok {
				return v, nil
			}
		}
	}
	// package-level objects
	if se.pkg != nil {
		if obj := se.pkg.Scope().Lookup(name); obj != nil {
			return se.objVal(obj)
		}
		for _, imp := range se.pkg.Imports() {
			if imp.Name() == name {
				return specVal{pkg: imp}, nil
			}
		}
	}
	return specVal{}, fmt.Errorf("unknown identifier %q", name)
}

func (se *specEnv) objVal(obj types.Object) (specVal, error) {
	e := se.e
	switch o := obj.(type) {
	case *types.Const:
		srt := e.tr.sortOf(o.Type())
		switch o.Val().Kind() {
		case constant.Int:
			if srt == SReal {
				return specVal{t: realLit(o.Val()), typ: o.Type()}, nil
			}
			return specVal{t: IntLitS(o.Val().ExactString()), typ: o.Type()}, nil
		case constant.String:
			return specVal{t: StrLit(constant.StringVal(o.Val())), typ: o.Type()}, nil
		case constant.Bool:
			return specVal{t: BoolLit(constant.BoolVal(o.Val())), typ: o.Type()}, nil
		case constant.Float:
			return specVal{t: realLit(o.Val()), typ: o.Type()}, nil
		}
	case *types.Var:
		// package-level variable: value of its cell
		sp := e.prog.ssaProg.Package(o.Pkg())
		if sp != nil {
			if g, ok := sp.Members[o.Name()].(*ssa.Global); ok {
				p := e.val(g)
				return specVal{t: e.loadPtr(se.cur, p, o.Type()), typ: o.Type()}, nil
			}
		}
	case *types.Func:
		sp := e.prog.ssaProg.Package(o.Pkg())
		if sp != nil {
			if f := sp.Func(o.Name()); f != nil {
				return specVal{t: e.fnTerm(f), typ: o.Type()}, nil
			}
		}
	}
	return specVal{}, fmt.Errorf("unsupported package-level object %s", obj.Name())
}

// localByName finds a source-level variable: a phi of the current loop header, any phi, or an Alloc.
func (se *specEnv) localByName(name string) (specVal, bool) {
	e := se.e
	if se.loop != nil && name == "rangebound" {
		// the bound of a range-over-integer loop: the right operand of the `next < bound` test on the back edge
		for _, bk := range se.loop.backs {
			if len(bk.Instrs) == 0 {
				continue
			}
			if ifi, ok := bk.Instrs[len(bk.Instrs)-1].(*ssa.If); ok {
				if b, ok := ifi.Cond.(*ssa.BinOp); ok && b.Op == token.LSS {
					if t, ok := e.vals[b.Y]; ok {
						return specVal{t: t, typ: b.Y.Type()}, true
					}
				}
			}
		}
		return specVal{}, false
	}
	if se.loop != nil && name == "rangeexpr" {
		// the slice a range loop iterates over: the operand of the len() the loop header compares the index with
		for _, ins := range se.loop.header.Instrs {
			b, ok := ins.(*ssa.BinOp)
			if !ok {
				continue
			}
			for _, op := range []ssa.Value{b.X, b.Y} {
				if c, ok := op.(*ssa.Call); ok {
					if bi, ok := c.Call.Value.(*ssa.Builtin); ok && bi.Name() == "len" && len(c.Call.Args) == 1 {
						if t, ok := e.vals[c.Call.Args[0]]; ok {
							return specVal{t: t, typ: c.Call.Args[0].Type()}, true
						}
					}
				}
			}
		}
	}
	if se.loop != nil {
		for _, ins := range se.loop.header.Instrs {
			phi, ok := ins.(*ssa.Phi)
			if !ok {
				break
			}
			if phi.Comment == name || (name == "rangeiter" && phi.Comment == "rangeint.iter") {
				if t, ok := e.vals[phi]; ok {
					if allAllocEdges(phi) {
						// the phi is the address of the variable's current cell (captured per-iteration variable)
						ct := derefType(phi.Type())
						rv := e.loadPtr(se.cur, t, ct)
						se.typed(rv, ct)
						return specVal{t: rv, typ: ct}, true
					}
					return specVal{t: t, typ: phi.Type()}, true
				}
			}
		}
	}
	// a variable that lives in exactly one cell (captured by a closure, or its address taken) is read from that cell in
	// the current state: the value the debug information attaches to its defining statement (`run := make(...)`)
	// would be the stale initial value
	{
		var only *ssa.Alloc
		n := 0
		for _, b := range se.fn.Blocks {
			for _, ins := range b.Instrs {
				if a, ok := ins.(*ssa.Alloc); ok && a.Comment == name {
					n++
					only = a
				}
			}
		}
		if n == 1 {
			if e.localCells[only] {
				t := derefType(only.Type())
				return specVal{t: e.lookup(se.cur, e.localName(only), e.tr.sortOf(t)), typ: t}, true
			}
			if p, ok := e.vals[only]; ok {
				t := derefType(only.Type())
				return specVal{t: e.loadPtr(se.cur, p, t), typ: t}, true
			}
		}
	}
	if v, ok := se.debugName(name); ok {
		return v, true
	}
	var found ssa.Value
	for _, b := range se.fn.Blocks {
		for _, ins := range b.Instrs {
			switch v := ins.(type) {
			case *ssa.Alloc:
				if v.Comment == name {
					if e.localCells[v] {
						t := derefType(v.Type())
						return specVal{t: e.lookup(se.cur, e.localName(v), e.tr.sortOf(t)), typ: t}, true
					}
					if p, ok := e.vals[v]; ok {
						t := derefType(v.Type())
						return specVal{t: e.loadPtr(se.cur, p, t), typ: t}, true
					}
				}
			case *ssa.Phi:
				if v.Comment == name && found == nil {
					if _, ok := e.vals[v]; ok {
						found = v
					}
				}
			}
		}
	}
	if found != nil {
		return specVal{t: e.vals[found], typ: found.Type()}, true
	}
	return specVal{}, false
}

func (se *specEnv) evalSel(n *SSel) (specVal, error) {
	e := se.e
	xv, err := se.eval(n.X)
	if err != nil {
		return specVal{}, err
	}
	if xv.pkg != nil {
		obj := xv.pkg.Scope().Lookup(n.Name)
		if obj == nil {
			return specVal{}, fmt.Errorf("%s.%s not found", xv.pkg.Name(), n.Name)
		}
		return se.objVal(obj)
	}
	if xv.tuple != nil {
		var k int
		if _, err := fmt.Sscanf(n.Name, "%d", &k); err != nil || k >= len(xv.tuple) {
			return specVal{}, fmt.Errorf("bad tuple index %s", n.Name)
		}
		return xv.tuple[k], nil
	}
	if xv.typ == nil {
		return specVal{}, fmt.Errorf("cannot select .%s from untyped value %s", n.Name, n.X)
	}
	// builtin pseudo-fields
	t := xv.typ
	if pt, ok := t.Underlying().(*types.Pointer); ok {
		// pointer to struct: field read from heap
		st, ok := pt.Elem().Underlying().(*types.Struct)
		if !ok {
			return specVal{}, fmt.Errorf("%s is not a pointer to struct", n.X)
		}
		idx := fieldIndex(st, n.Name)
		if idx < 0 {
			return specVal{}, fmt.Errorf("no field %s in %s", n.Name, pt.Elem())
		}
		ft := st.Field(idx).Type()
		if _, isMod := e.tr.isModuleStruct(pt.Elem()); !isMod {
			// opaque external struct: the field lives at base + (index+1), exactly as the encoder addresses it
			rv := se.e.loadPtr(se.cur, App(SInt, "+", xv.t, IntLit(int64(idx+1))), ft)
			return specVal{t: rv, typ: ft}, nil
		}
		if _, fmod := e.tr.isModuleStruct(ft); fmod {
			slot := e.tr.layout(pt.Elem()).slots[idx]
			return specVal{t: App(SInt, "+", xv.t, IntLit(int64(slot))), typ: types.NewPointer(ft)}, nil
		}
		h := e.lookup(se.cur, heapFieldName(e.tr, pt.Elem(), idx), ArraySort(SInt, e.tr.sortOf(ft)))
		rv := se.purify(Select(h, xv.t))
		se.typed(rv, ft)
		return specVal{t: rv, typ: ft}, nil
	}
	if st, ok := t.Underlying().(*types.Struct); ok {
		idx := fieldIndex(st, n.Name)
		if idx < 0 {
			return specVal{}, fmt.Errorf("no field %s in %s", n.Name, t)
		}
		if _, isMod := e.tr.isModuleStruct(t); !isMod {
			return specVal{}, fmt.Errorf("fields of external type %s are not modelled", t)
		}
		ft := st.Field(idx).Type()
		return specVal{t: App(e.tr.sortOf(ft), xv.t.Sort+"_"+fieldName(st.Field(idx), idx), xv.t), typ: ft}, nil
	}
	return specVal{}, fmt.Errorf("cannot select .%s from %s of type %s", n.Name, n.X, t)
}

func fieldIndex(st *types.Struct, name string) int {
	for i := 0; i < st.NumFields(); i++ {
		if st.Field(i).Name() == name {
			return i
		}
	}
	// a field renamed since the contract was written (see resolveRenames)
	if now, ok := structAlias[st][name]; ok {
		for i := 0; i < st.NumFields(); i++ {
			if st.Field(i).Name() == now {
				return i
			}
		}
	}
	return -1
}

// evalAddr: &x.f  (address of an embedded struct or scalar field; only embedded structs supported)
func (se *specEnv) evalAddr(x SExpr) (specVal, error) {
	if id, ok := x.(*SIdent); ok {
		if v, ok := se.binds[id.Name]; ok && v.cell {
			return specVal{t: v.t, typ: v.typ}, nil
		}
	}
	v, err := se.eval(x)
	if err != nil {
		return specVal{}, err
	}
	if v.typ != nil {
		if _, ok := v.typ.Underlying().(*types.Pointer); ok {
			return v, nil // selector on embedded struct already yields its address
		}
	}
	return specVal{}, fmt.Errorf("cannot take address of %s", x)
}

func (se *specEnv) index(xv, iv specVal, n SExpr) (specVal, error) {
	e := se.e
	if xv.typ != nil {
		switch u := xv.typ.Underlying().(type) {
		case *types.Slice:
			name := "E$" + e.tr.typeID(u.Elem())
			h := e.lookup(se.cur, name, ArraySort(SInt, ArraySort(SInt, e.tr.sortOf(u.Elem()))))
			rv := Select(Select(h, App(SInt, "sref", xv.t)), iv.t)
			return specVal{t: rv, typ: u.Elem()}, nil
		case *types.Map:
			h := e.lookup(se.cur, e.mapHeap(u), e.mapHeapSort(u))
			return specVal{t: Select(Select(h, xv.t), iv.t), typ: u.Elem()}, nil
		case *types.Array:
			return specVal{t: Select(xv.t, iv.t), typ: u.Elem()}, nil
		}
	}
	if strings.HasPrefix(xv.t.Sort, "(Array ") {
		return specVal{t: Select(xv.t, iv.t)}, nil
	}
	return specVal{}, fmt.Errorf("cannot index %s", n)
}

func (se *specEnv) evalCall(n *SCall) (specVal, error) {
	e := se.e
	args := func() ([]specVal, error) {
		var out []specVal
		for _, a := range n.Args {
			v, err := se.eval(a)
			if err != nil {
				return nil, err
			}
			out = append(out, v)
		}
		return out, nil
	}
	switch n.Fn {
	case "old":
		if len(n.Args) != 1 {
			return specVal{}, fmt.Errorf("old takes one argument")
		}
		ne := *se
		ne.cur = se.old
		return ne.eval(n.Args[0])
	case "len":
		as, err := args()
		if err != nil {
			return specVal{}, err
		}
		v := as[0]
		switch v.t.Sort {
		case SSlice:
			return specVal{t: App(SInt, "slen", v.t)}, nil
		case SString:
			return specVal{t: App(SInt, "str.len", v.t)}, nil
		}
		if v.typ != nil {
			if mt, ok := v.typ.Underlying().(*types.Map); ok {
				e.sc.DeclareFun("maplen", []string{ArraySort(e.tr.sortOf(mt.Key()), SBool)}, SInt)
				d := e.lookup(se.cur, e.mapDomHeap(mt), e.mapDomSort(mt))
				return specVal{t: App(SInt, "maplen", Select(d, v.t))}, nil
			}
		}
		return specVal{}, fmt.Errorf("len of %s", n.Args[0])
	case "min", "max", "abs":
		as, err := args()
		if err != nil {
			return specVal{}, err
		}
		if n.Fn == "abs" {
			if as[0].t.Sort == SReal {
				return specVal{t: App(SReal, "rabs", as[0].t)}, nil
			}
			return specVal{t: App(SInt, "iabs", as[0].t)}, nil
		}
		a, b := unify(e, as[0], as[1])
		if a.t.Sort == SReal {
			return specVal{t: App(SReal, "r"+n.Fn, a.t, b.t)}, nil
		}
		return specVal{t: App(SInt, "i"+n.Fn, a.t, b.t), typ: a.typ}, nil
	case "floor":
		as, err := args()
		if err != nil {
			return specVal{}, err
		}
		return specVal{t: App(SInt, "to_int", ToReal(as[0].t))}, nil
	case "ceil":
		as, err := args()
		if err != nil {
			return specVal{}, err
		}
		return specVal{t: App(SInt, "rceil", ToReal(as[0].t))}, nil
	case "trunc":
		as, err := args()
		if err != nil {
			return specVal{}, err
		}
		return specVal{t: App(SInt, "rtrunc", ToReal(as[0].t))}, nil
	case "real":
		as, err := args()
		if err != nil {
			return specVal{}, err
		}
		return specVal{t: ToReal(as[0].t)}, nil
	case "isInt":
		as, err := args()
		if err != nil {
			return specVal{}, err
		}
		xr := ToReal(as[0].t)
		return specVal{t: Eq(xr, App(SReal, "to_real", App(SInt, "to_int", xr)))}, nil
	case "rnd":
		as, err := args()
		if err != nil {
			return specVal{}, err
		}
		return specVal{t: e.rnd(ToReal(as[0].t))}, nil
	case "isnil":
		as, err := args()
		if err != nil {
			return specVal{}, err
		}
		return specVal{t: Eq(as[0].t, e.tr.zeroOfSort(as[0].t.Sort, as[0].typ))}, nil
	case "indom":
		// indom(m, k): key k present in map m
		as, err := args()
		if err != nil {
			return specVal{}, err
		}
		mt, ok := as[0].typ.Underlying().(*types.Map)
		if !ok {
			return specVal{}, fmt.Errorf("indom: not a map")
		}
		d := e.lookup(se.cur, e.mapDomHeap(mt), e.mapDomSort(mt))
		return specVal{t: And(Not(Eq(as[0].t, IntLit(0))), Select(Select(d, as[0].t), as[1].t))}, nil
	case "typeis":
		// typeis(x, "pkg.Type") for interface values: dynamic type test by registered name
		return specVal{}, fmt.Errorf("typeis not supported")
	case "timeZero":
		return specVal{t: T("TIME_ZERO", SInt)}, nil
	case "deref":
		as, err := args()
		if err != nil {
			return specVal{}, err
		}
		if as[0].typ == nil {
			return specVal{}, fmt.Errorf("deref of untyped value")
		}
		pt, ok := as[0].typ.Underlying().(*types.Pointer)
		if !ok {
			return specVal{}, fmt.Errorf("deref of non-pointer")
		}
		rv := se.purify(e.loadPtr(se.cur, as[0].t, pt.Elem()))
		se.typed(rv, pt.Elem())
		return specVal{t: rv, typ: pt.Elem()}, nil
	case "contains":
		as, err := args()
		if err != nil {
			return specVal{}, err
		}
		return specVal{t: App(SBool, "str.contains", as[0].t, as[1].t)}, nil
	case "indexOf":
		as, err := args()
		if err != nil {
			return specVal{}, err
		}
		return specVal{t: App(SInt, "str.indexof", as[0].t, as[1].t, IntLit(0))}, nil
	case "substr":
		// substr(s, from, to) = s[from:to]
		as, err := args()
		if err != nil {
			return specVal{}, err
		}
		return specVal{t: App(SString, "str.substr", as[0].t, as[1].t, App(SInt, "-", as[2].t, as[1].t))}, nil
	case "atoi", "atoiOk", "pd", "pdOk", "allDigits":
		as, err := args()
		if err != nil {
			return specVal{}, err
		}
		e.declareStringSpecs()
		switch n.Fn {
		case "atoi":
			return specVal{t: App(SInt, "atoi_val", as[0].t)}, nil
		case "atoiOk":
			return specVal{t: And(App(SBool, "atoi_ok", as[0].t), App(SBool, "<=", IntLitS("-9223372036854775808"), App(SInt, "atoi_val", as[0].t)), App(SBool, "<=", App(SInt, "atoi_val", as[0].t), IntLitS("9223372036854775807")))}, nil
		case "pd":
			return specVal{t: App(SInt, "pd_val", as[0].t)}, nil
		case "pdOk":
			return specVal{t: And(App(SBool, "pd_syntax", as[0].t), Not(App(SBool, "pd_overflow", as[0].t)))}, nil
		default:
			return specVal{t: T(fmt.Sprintf("(str.in_re %s (re.+ (re.range \"0\" \"9\")))", as[0].t.S), SBool)}, nil
		}
	case "nthKey":
		// nthKey(m, i): the i-th key of map m in increasing order (the unique sorted enumeration of its key set)
		as, err := args()
		if err != nil {
			return specVal{}, err
		}
		mt, ok := as[0].typ.Underlying().(*types.Map)
		if !ok {
			return specVal{}, fmt.Errorf("nthKey: first argument is not a map")
		}
		ks := e.tr.sortOf(mt.Key())
		e.sc.DeclareFun("nth_key_"+ks, []string{ArraySort(ks, SBool), SInt}, ks)
		d := e.lookup(se.cur, e.mapDomHeap(mt), e.mapDomSort(mt))
		return specVal{t: App(ks, "nth_key_"+ks, Select(d, as[0].t), as[1].t), typ: mt.Key()}, nil
	case "setenvOK":
		as, err := args()
		if err != nil {
			return specVal{}, err
		}
		e.sc.DeclareFun("setenv_ok", []string{SString, SString}, SBool)
		return specVal{t: App(SBool, "setenv_ok", as[0].t, as[1].t)}, nil
	case "held":
		// held(x.mu): this thread holds the mutex in field mu of the object x points to
		if len(n.Args) != 1 {
			return specVal{}, fmt.Errorf("held(x.f)")
		}
		sel, ok := n.Args[0].(*SSel)
		if !ok {
			return specVal{}, fmt.Errorf("held(x.f): argument must be a field selector")
		}
		xv, err := se.eval(sel.X)
		if err != nil {
			return specVal{}, err
		}
		pt, ok := xv.typ.Underlying().(*types.Pointer)
		if !ok {
			return specVal{}, fmt.Errorf("held(x.f): x must be a pointer to a struct")
		}
		st, ok := pt.Elem().Underlying().(*types.Struct)
		if !ok {
			return specVal{}, fmt.Errorf("held(x.f): x must be a pointer to a struct")
		}
		idx := fieldIndex(st, sel.Name)
		if idx < 0 {
			return specVal{}, fmt.Errorf("held: no field %s", sel.Name)
		}
		addr := App(SInt, "+", xv.t, IntLit(int64(1000+idx)))
		if se.cur == e.entry && !se.pure {
			e.heldNamed = append(e.heldNamed, addr)
		}
		h := e.lookup(se.cur, "L$held", ArraySort(SInt, SInt))
		return specVal{t: Not(Eq(Select(h, addr), IntLit(0)))}, nil
	case "heldLocker":
		// heldLocker(l): this thread holds the sync.Locker value l (e.g. p.cond.L)
		as, err := args()
		if err != nil {
			return specVal{}, err
		}
		if as[0].t.Sort != SIface {
			return specVal{}, fmt.Errorf("heldLocker: argument is not an interface value")
		}
		h := e.lookup(se.cur, "L$held", ArraySort(SInt, SInt))
		addr := App(SInt, "ival", as[0].t)
		if se.cur == e.entry && !se.pure {
			e.heldNamed = append(e.heldNamed, addr)
		}
		return specVal{t: Not(Eq(Select(h, addr), IntLit(0)))}, nil
	case "visited":
		// visited(k): key k has already been produced by the (single) range-over-map loop of this function
		as, err := args()
		if err != nil {
			return specVal{}, err
		}
		var rng *ssa.Range
		for _, b := range e.fn.Blocks {
			for _, ins := range b.Instrs {
				if r, ok := ins.(*ssa.Range); ok {
					if _, isMap := r.X.Type().Underlying().(*types.Map); isMap {
						if rng != nil {
							return specVal{}, fmt.Errorf("visited(): more than one range-over-map loop in %s", e.key)
						}
						rng = r
					}
				}
			}
		}
		if rng == nil {
			return specVal{}, fmt.Errorf("visited(): no range-over-map loop in %s", e.key)
		}
		vis := e.lookup(se.cur, e.rangeVisitedName(rng), e.rangeVisitedSort(rng))
		return specVal{t: Select(vis, as[0].t)}, nil
	case "closed":
		as, err := args()
		if err != nil {
			return specVal{}, err
		}
		cl := e.lookup(se.cur, "G$closedchans", ArraySort(SInt, SBool))
		return specVal{t: Select(cl, as[0].t)}, nil
	case "tickerPeriod", "timerDelay":
		as, err := args()
		if err != nil {
			return specVal{}, err
		}
		h := e.lookup(se.cur, "G$"+n.Fn, ArraySort(SInt, SInt))
		return specVal{t: Select(h, as[0].t)}, nil
	case "timerStopped":
		as, err := args()
		if err != nil {
			return specVal{}, err
		}
		h := e.lookup(se.cur, "G$timerStopped", ArraySort(SInt, SBool))
		return specVal{t: Select(h, as[0].t)}, nil
	case "formatUint":
		as, err := args()
		if err != nil {
			return specVal{}, err
		}
		e.sc.DeclareFun("format_uint", []string{SInt, SInt}, SString)
		return specVal{t: App(SString, "format_uint", as[0].t, as[1].t)}, nil
	case "fresh":
		// fresh(p): p was allocated since the old state (during the call / function)
		as, err := args()
		if err != nil {
			return specVal{}, err
		}
		pt := as[0].t
		if pt.Sort == SSlice {
			pt = App(SInt, "sref", pt)
		}
		return specVal{t: And(App(SBool, ">", pt, e.lookup(se.old, "alloc", SInt)), App(SBool, "<=", pt, e.lookup(se.cur, "alloc", SInt)))}, nil
	case "allocated":
		as, err := args()
		if err != nil {
			return specVal{}, err
		}
		pt := as[0].t
		if pt.Sort == SSlice {
			pt = App(SInt, "sref", pt)
		}
		return specVal{t: And(App(SBool, ">", pt, IntLit(0)), App(SBool, "<=", pt, e.lookup(se.cur, "alloc", SInt)))}, nil
	case "isBound":
		// isBound(f, recv, "method"): f is the method value recv.method
		if len(n.Args) != 3 {
			return specVal{}, fmt.Errorf("isBound(f, recv, \"method\")")
		}
		fv, err := se.eval(n.Args[0])
		if err != nil {
			return specVal{}, err
		}
		rv, err := se.eval(n.Args[1])
		if err != nil {
			return specVal{}, err
		}
		ms, ok := n.Args[2].(*SStrLit)
		if !ok || rv.typ == nil {
			return specVal{}, fmt.Errorf("isBound: third argument must be a method name and the receiver must be typed")
		}
		full := "(" + types.TypeString(rv.typ, nil) + ")." + ms.Val + "$bound"
		e.sc.DeclareFun("fn_code", []string{SInt}, SInt)
		e.sc.DeclareFun("fn_fv0_Int", []string{SInt}, SInt)
		return specVal{t: And(Not(Eq(fv.t, IntLit(0))), Eq(App(SInt, "fn_code", fv.t), e.prog.fnTermByName(full)), Eq(App(SInt, "fn_fv0_Int", fv.t), rv.t))}, nil
	case "errorsIs":
		as, err := args()
		if err != nil {
			return specVal{}, err
		}
		e.sc.DeclareFun("errors_is", []string{SIface, SIface}, SBool)
		return specVal{t: And(Not(Eq(as[0].t, nilIface())), Eq(as[0].t, as[1].t))}, nil
	}
	// user predicate
	if p, ok := e.prog.cs.Preds[n.Fn]; ok {
		if len(p.Params) != len(n.Args) {
			return specVal{}, fmt.Errorf("pred %s takes %d arguments", p.Name, len(p.Params))
		}
		as, err := args()
		if err != nil {
			return specVal{}, err
		}
		ne := &specEnv{e: e, old: se.old, cur: se.cur, binds: map[string]specVal{}, fn: nil, pkg: e.prog.typesPkg(p.PkgPath), noLocal: true}
		for i, pn := range p.Params {
			v := as[i]
			if v.typ == nil {
				// give the argument the declared type when it names a Go type
				if ty := e.prog.resolveType(p.PkgPath, p.Types[i]); ty != nil {
					v.typ = ty
				}
			}
			ne.binds[pn] = v
		}
		return ne.eval(p.Body)
	}
	return specVal{}, fmt.Errorf("unknown function %s in spec", n.Fn)
}

// modLoc resolves a modifies entry to (heap name, sort, index term); index.S=="" means the whole heap/variable.
type modTarget struct {
	heap  string
	sort  string
	index Term
	whole bool
}

func (se *specEnv) modTargets(m ModLoc) ([]modTarget, error) {
	e := se.e
	switch x := m.Expr.(type) {
	case *SIdent:
		if srt, ok := builtinGhosts[x.Name]; ok {
			return []modTarget{{heap: "G$" + x.Name, sort: srt, whole: true}}, nil
		}
		if g, ok := e.prog.cs.Ghosts[x.Name]; ok {
			srt, err := ghostSort(g.Type)
			if err != nil {
				return nil, err
			}
			return []modTarget{{heap: "G$" + x.Name, sort: srt, whole: true}}, nil
		}
		if v, ok := se.binds[x.Name]; ok && v.cell {
			return se.allOf(specVal{t: v.t, typ: v.typ})
		}
		// a pointer parameter: everything it points to
		v, err := se.eval(x)
		if err != nil {
			return nil, err
		}
		return se.allOf(v)
	case *SSel:
		xv, err := se.eval(x.X)
		if err != nil {
			return nil, err
		}
		if xv.typ == nil {
			return nil, fmt.Errorf("modifies %s: untyped", m.Text)
		}
		pt, ok := xv.typ.Underlying().(*types.Pointer)
		if !ok {
			return nil, fmt.Errorf("modifies %s: base is not a pointer", m.Text)
		}
		st, ok := pt.Elem().Underlying().(*types.Struct)
		if !ok {
			return nil, fmt.Errorf("modifies %s: not a struct", m.Text)
		}
		idx := fieldIndex(st, x.Name)
		if idx < 0 {
			return nil, fmt.Errorf("modifies %s: no such field", m.Text)
		}
		ft := st.Field(idx).Type()
		if _, fmod := e.tr.isModuleStruct(ft); fmod {
			slot := e.tr.layout(pt.Elem()).slots[idx]
			return se.allOf(specVal{t: App(SInt, "+", xv.t, IntLit(int64(slot))), typ: types.NewPointer(ft)})
		}
		return []modTarget{{heap: heapFieldName(e.tr, pt.Elem(), idx), sort: ArraySort(SInt, e.tr.sortOf(ft)), index: xv.t}}, nil
	case *SCall:
		switch x.Fn {
		case "elems":
			v, err := se.eval(x.Args[0])
			if err != nil {
				return nil, err
			}
			sl, ok := v.typ.Underlying().(*types.Slice)
			if !ok {
				return nil, fmt.Errorf("elems of non-slice")
			}
			return []modTarget{{heap: "E$" + e.tr.typeID(sl.Elem()), sort: ArraySort(SInt, ArraySort(SInt, e.tr.sortOf(sl.Elem()))), index: App(SInt, "sref", v.t)}}, nil
		case "heap":
			// heap(T.f): the whole field heap (any object)
			if len(x.Args) == 1 {
				if sel, ok := x.Args[0].(*SSel); ok {
					if id, ok := sel.X.(*SIdent); ok {
						ty := e.prog.resolveType(se.pkgPath(), id.Name)
						if ty != nil {
							if st, ok := ty.Underlying().(*types.Struct); ok {
								idx := fieldIndex(st, sel.Name)
								if idx >= 0 {
									ft := st.Field(idx).Type()
									return []modTarget{{heap: heapFieldName(e.tr, ty, idx), sort: ArraySort(SInt, e.tr.sortOf(ft)), whole: true}}, nil
								}
							}
						}
					}
				}
			}
			return nil, fmt.Errorf("heap(T.f) expected")
		case "cell":
			// cell(p): the scalar cell p points to
			v, err := se.eval(x.Args[0])
			if err != nil {
				return nil, err
			}
			return se.allOf(v)
		}
	}
	return nil, fmt.Errorf("unsupported modifies entry %s", m.Text)
}

func (se *specEnv) pkgPath() string {
	if se.pkg != nil {
		return se.pkg.Path()
	}
	return ""
}

func (se *specEnv) allOf(v specVal) ([]modTarget, error) {
	e := se.e
	if v.typ == nil {
		return nil, fmt.Errorf("modifies: untyped pointer")
	}
	pt, ok := v.typ.Underlying().(*types.Pointer)
	if !ok {
		return nil, fmt.Errorf("modifies: %s is not a pointer", v.t.S)
	}
	var out []modTarget
	var rec func(p Term, t types.Type)
	rec = func(p Term, t types.Type) {
		if st, ok := e.tr.isModuleStruct(t); ok {
			lay := e.tr.layout(t)
			for i := 0; i < st.NumFields(); i++ {
				ft := st.Field(i).Type()
				if _, fmod := e.tr.isModuleStruct(ft); fmod {
					rec(App(SInt, "+", p, IntLit(int64(lay.slots[i]))), ft)
				} else {
					out = append(out, modTarget{heap: heapFieldName(e.tr, t, i), sort: ArraySort(SInt, e.tr.sortOf(ft)), index: p})
				}
			}
			return
		}
		out = append(out, modTarget{heap: "P$" + e.tr.typeID(t), sort: ArraySort(SInt, e.tr.sortOf(t)), index: p})
	}
	rec(v.t, pt.Elem())
	return out, nil
}

// debugName resolves a source identifier through ssa.DebugRef instructions (GlobalDebug mode).
func (se *specEnv) debugName(name string) (specVal, bool) {
	e := se.e
	if e.debugNames == nil {
		e.debugNames = map[string][]*ssa.DebugRef{}
		for _, b := range se.fn.Blocks {
			for _, ins := range b.Instrs {
				if d, ok := ins.(*ssa.DebugRef); ok {
					if id, ok := d.Expr.(*ast.Ident); ok {
						e.debugNames[id.Name] = append(e.debugNames[id.Name], d)
					}
				}
			}
		}
	}
	refs := e.debugNames[name]
	if len(refs) == 0 {
		return specVal{}, false
	}
	var pick *ssa.DebugRef
	score := -1
	if se.loop == nil && e.curBlock != nil {
		// outside loop-invariant contexts: the reference executed most recently on the way to the current point
		best := 0
		for _, d := range refs {
			seq, seen := e.debugSeen[d]
			if !seen || d.IsAddr {
				continue
			}
			if _, defined := e.vals[d.X]; !defined {
				continue
			}
			if d.Block() != e.curBlock && !d.Block().Dominates(e.curBlock) {
				continue
			}
			if seq > best {
				best, pick = seq, d
			}
		}
		if pick != nil {
			return specVal{t: e.vals[pick.X], typ: pick.X.Type()}, true
		}
	}
	for _, d := range refs {
		sc := 0
		if _, defined := e.vals[d.X]; !defined {
			if a, isAlloc := d.X.(*ssa.Alloc); !isAlloc || !e.localCells[a] {
				if _, isParam := d.X.(*ssa.Parameter); !isParam {
					continue
				}
			}
		}
		if se.loop != nil {
			if ins, ok := d.X.(ssa.Instruction); ok {
				if ins.Block() == se.loop.header {
					sc = 3
					if _, isPhi := d.X.(*ssa.Phi); isPhi {
						sc = 4
					}
				} else if se.loop.body[ins.Block()] {
					sc = 1
				} else {
					sc = 2
				}
			}
		}
		if sc > score {
			score, pick = sc, d
		}
	}
	if pick == nil {
		return specVal{}, false
	}
	if pick.IsAddr {
		if a, ok := pick.X.(*ssa.Alloc); ok && e.localCells[a] {
			t := derefType(a.Type())
			return specVal{t: e.lookup(se.cur, e.localName(a), e.tr.sortOf(t)), typ: t}, true
		}
		p, ok := e.vals[pick.X]
		if !ok {
			return specVal{}, false
		}
		t := derefType(pick.X.Type())
		return specVal{t: e.loadPtr(se.cur, p, t), typ: t}, true
	}
	return specVal{t: e.val(pick.X), typ: pick.X.Type()}, true
}

// typed records that a heap cell read in a specification holds a value of its Go type (every
// reachable Go value is within its type's range). Skipped under quantifiers (bound variables).
func (se *specEnv) typed(v Term, t types.Type) {
	if strings.Contains(v.S, "q_") || se.pure || strings.Contains(v.S, "POISON") {
		return
	}
	ra := se.e.tr.rangeAssumption(v, t, 0)
	// references stored in the heap of a state were allocated before that state
	switch t.Underlying().(type) {
	case *types.Pointer, *types.Map, *types.Chan, *types.Signature:
		if v.Sort == SInt {
			ra = And(ra, App(SBool, "<=", v, se.e.lookup(se.cur, "alloc", SInt)))
		}
	case *types.Slice:
		ra = And(ra, App(SBool, "<=", App(SInt, "sref", v), se.e.lookup(se.cur, "alloc", SInt)))
	}
	if ra.S == "true" || se.e.typedSeen[ra.S] {
		return
	}
	se.e.typedSeen[ra.S] = true
	se.e.sc.Assert(ra)
}

// triggerPatterns picks E-matching triggers for a quantified body: the (select A x) terms whose
// index is exactly a bound variable and whose array does not mention a bound variable deeper than
// one more select (heap reads). Each becomes an alternative single-term pattern. Only used when a
// single bound variable is quantified (multi-variable bodies are left to the solver).
func triggerPatterns(body string, vars []string) []string {
	if len(vars) == 2 {
		a := triggerPatterns(body, vars[:1])
		b := triggerPatterns(body, vars[1:])
		if len(a) == 0 || len(b) == 0 {
			return nil
		}
		ta := strings.TrimSuffix(strings.TrimPrefix(a[0], ":pattern ("), ")")
		tb := strings.TrimSuffix(strings.TrimPrefix(b[0], ":pattern ("), ")")
		return []string{":pattern (" + ta + " " + tb + ")"}
	}
	if len(vars) != 1 {
		return nil
	}
	v := vars[0]
	seen := map[string]bool{}
	var pats []string
	needle := " " + v + ")"
	for i := 0; i+len(needle) <= len(body); i++ {
		if body[i:i+len(needle)] != needle {
			continue
		}
		// find the opening paren of this application
		end := i + len(needle)
		depth := 0
		start := -1
		for k := end - 1; k >= 0; k-- {
			switch body[k] {
			case ')':
				depth++
			case '(':
				depth--
				if depth == 0 {
					start = k
				}
			}
			if start >= 0 {
				break
			}
		}
		if start < 0 {
			continue
		}
		term := body[start:end]
		if !strings.HasPrefix(term, "(select ") {
			continue
		}
		// the array part must not contain the bound variable
		arr := term[len("(select ") : len(term)-len(needle)]
		if strings.Contains(arr, v) {
			continue
		}
		if !seen[term] {
			seen[term] = true
			pats = append(pats, ":pattern ("+term+")")
		}
	}
	if len(pats) > 4 {
		pats = pats[:4]
	}
	return pats
}

// builtinGhosts: ghost state maintained by the trusted library contracts.
var builtinGhosts = map[string]string{
	"closedchans":  ArraySort(SInt, SBool),
	"timerStopped": ArraySort(SInt, SBool),
	"tickerPeriod": ArraySort(SInt, SInt),
	"timerDelay":   ArraySort(SInt, SInt),
	"env":          ArraySort(SString, SString),
	"envset":       ArraySort(SString, SBool),
}

// purify names a scalar heap read by a constant with a defining equation: arithmetic over named
// constants is decided far faster than arithmetic over array-select terms (z3 stalls on
// mixed integer/real goals whose atoms contain selects). Reads under a quantifier keep their term.
func (se *specEnv) purify(t Term) Term {
	if se.pure || strings.Contains(t.S, "POISON") {
		return t
	}
	return se.e.purify(t)
}

func (e *Enc) purify(t Term) Term {
	if strings.Contains(t.S, "q_") || (t.Sort != SInt && t.Sort != SReal && t.Sort != SBool) || !strings.HasPrefix(t.S, "(select ") {
		return t
	}
	if c, ok := e.purified[t.S]; ok {
		return c
	}
	e.freshCounter++
	name := fmt.Sprintf("rd!%d", e.freshCounter)
	c := e.sc.Declare(name, t.Sort)
	// a read of an unmodified heap version is a free constant unless something else mentions that
	// heap version: key the equation by the heap name so that slices can leave it out
	inner := strings.TrimPrefix(t.S, "(select ")
	if k := strings.IndexByte(inner, ' '); k > 0 && !strings.HasPrefix(inner, "(") {
		e.sc.AssertKeyed(inner[:k]+" ", Eq(c, t))
	} else {
		e.sc.AssertDef(name, Eq(c, t))
	}
	e.purified[t.S] = c
	return c
}

// debugValue returns the SSA value currently bound to a source-level local (by DebugRef).
func (se *specEnv) debugValue(name string) (ssa.Value, bool) {
	e := se.e
	se.debugName(name) // builds the index
	var pick ssa.Value
	for _, d := range e.debugNames[name] {
		if d.IsAddr {
			continue
		}
		if _, ok := e.vals[d.X]; ok {
			pick = d.X
		}
	}
	return pick, pick != nil
}

// frameAsStore recognises  (=> (not (= q e)) (= (select A q) (select B q)))  with q not in e, A, B and
// returns the equivalent  (= A (store B e (select A e))).
func frameAsStore(body, q string) (string, bool) {
	pre := "(=> (not (= " + q + " "
	if !strings.HasPrefix(body, pre) || !strings.HasSuffix(body, ")") {
		return "", false
	}
	rest := body[len(pre):]
	ex := readSexp(rest)
	if ex == "" || containsWord(ex, q) {
		return "", false
	}
	rest = rest[len(ex):]
	if !strings.HasPrefix(rest, ")) (= (select ") {
		return "", false
	}
	rest = rest[len(")) (= (select "):]
	a := readSexp(rest)
	rest = rest[len(a):]
	if a == "" || containsWord(a, q) || !strings.HasPrefix(rest, " "+q+") (select ") {
		return "", false
	}
	rest = rest[len(" "+q+") (select "):]
	b := readSexp(rest)
	rest = rest[len(b):]
	if b == "" || containsWord(b, q) || rest != " "+q+")))" {
		return "", false
	}
	return fmt.Sprintf("(= %s (store %s %s (select %s %s)))", a, b, ex, a, ex), true
}


// nameInFunc: the value last bound (in execution order so far) to source variable `name` in fn, or fn's
// parameter of that name.
func (e *Enc) nameInFunc(fn *ssa.Function, name string) (specVal, bool) {
	for _, p := range fn.Params {
		if p.Name() == name {
			if t, ok := e.vals[p]; ok {
				return specVal{t: t, typ: p.Type()}, true
			}
		}
	}
	best := 0
	var pick *ssa.DebugRef
	for _, b := range fn.Blocks {
		for _, ins := range b.Instrs {
			d, ok := ins.(*ssa.DebugRef)
			if !ok || d.IsAddr {
				continue
			}
			id, ok := d.Expr.(*ast.Ident)
			if !ok || id.Name != name {
				continue
			}
			if _, defined := e.vals[d.X]; !defined {
				continue
			}
			if seq := e.debugSeen[d]; seq > best {
				best, pick = seq, d
			}
		}
	}
	if pick != nil {
		return specVal{t: e.vals[pick.X], typ: pick.X.Type()}, true
	}
	return specVal{}, false
}
