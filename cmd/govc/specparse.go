package main

// Lexer and Pratt parser for the contract expression language (Go expression syntax plus
// ==>, <==>, old(e), forall/exists, c ? a : b).

import (
	"fmt"
	"strings"
	"unicode"
)

type tokKind int

const (
	tEOF tokKind = iota
	tIdent
	tInt
	tFloat
	tString
	tOp
)

type stok struct {
	kind tokKind
	text string
	pos  int
}

func lexSpec(src string) ([]stok, error) {
	var toks []stok
	i := 0
	for i < len(src) {
		c := src[i]
		switch {
		case c == ' ' || c == '\t' || c == '\n' || c == '\r':
			i++
		case c == '"':
			j := i + 1
			var sb strings.Builder
			for j < len(src) && src[j] != '"' {
				if src[j] == '\\' && j+1 < len(src) {
					j++
					switch src[j] {
					case 'n':
						sb.WriteByte('\n')
					case 't':
						sb.WriteByte('\t')
					default:
						sb.WriteByte(src[j])
					}
					j++
					continue
				}
				sb.WriteByte(src[j])
				j++
			}
			if j >= len(src) {
				return nil, fmt.Errorf("unterminated string at %d", i)
			}
			toks = append(toks, stok{tString, sb.String(), i})
			i = j + 1
		case c >= '0' && c <= '9':
			j := i
			isFloat := false
			for j < len(src) && (src[j] >= '0' && src[j] <= '9' || src[j] == '_' || src[j] == '.' || src[j] == 'e' && j+1 < len(src) && (src[j+1] == '-' || src[j+1] >= '0' && src[j+1] <= '9')) {
				if src[j] == '.' {
					// ".." or ".ident" is not part of the number
					if j+1 < len(src) && !(src[j+1] >= '0' && src[j+1] <= '9') {
						break
					}
					isFloat = true
				}
				if src[j] == 'e' {
					isFloat = true
					if src[j+1] == '-' {
						j++
					}
				}
				j++
			}
			txt := strings.ReplaceAll(src[i:j], "_", "")
			if isFloat {
				toks = append(toks, stok{tFloat, txt, i})
			} else {
				toks = append(toks, stok{tInt, txt, i})
			}
			i = j
		case c == '_' || unicode.IsLetter(rune(c)):
			j := i
			for j < len(src) && (src[j] == '_' || src[j] == '$' || unicode.IsLetter(rune(src[j])) || unicode.IsDigit(rune(src[j]))) {
				j++
			}
			toks = append(toks, stok{tIdent, src[i:j], i})
			i = j
		default:
			ops := []string{"<==>", "==>", "::", "==", "!=", "<=", ">=", "&&", "||", "++", "+", "-", "*", "/", "%", "<", ">", "!", "(", ")", "[", "]", ".", ",", "?", ":", "#", "&", "=", "{", "}", ";"}
			matched := false
			for _, op := range ops {
				if strings.HasPrefix(src[i:], op) {
					toks = append(toks, stok{tOp, op, i})
					i += len(op)
					matched = true
					break
				}
			}
			if !matched {
				return nil, fmt.Errorf("unexpected character %q at %d in %q", c, i, src)
			}
		}
	}
	toks = append(toks, stok{tEOF, "", len(src)})
	return toks, nil
}

// Spec AST

type SExpr interface{ String() string }

type (
	SIdent  struct{ Name string }
	SIntLit struct{ Val string }
	SFltLit struct{ Val string }
	SStrLit struct{ Val string }
	SBin    struct {
		Op   string
		L, R SExpr
	}
	SUn struct {
		Op string
		X  SExpr
	}
	SSel struct {
		X    SExpr
		Name string
	}
	SIndex struct{ X, I SExpr }
	SCall  struct {
		Fn   string
		Args []SExpr
	}
	SCond  struct{ C, A, B SExpr }
	SQuant struct {
		Forall bool
		Vars   []SQVar
		Body   SExpr
	}
	SQVar struct{ Name, Type string }
)

func (e *SIdent) String() string  { return e.Name }
func (e *SIntLit) String() string { return e.Val }
func (e *SFltLit) String() string { return e.Val }
func (e *SStrLit) String() string { return fmt.Sprintf("%q", e.Val) }
func (e *SBin) String() string    { return "(" + e.L.String() + " " + e.Op + " " + e.R.String() + ")" }
func (e *SUn) String() string     { return e.Op + e.X.String() }
func (e *SSel) String() string    { return e.X.String() + "." + e.Name }
func (e *SIndex) String() string  { return e.X.String() + "[" + e.I.String() + "]" }
func (e *SCall) String() string {
	var xs []string
	for _, a := range e.Args {
		xs = append(xs, a.String())
	}
	return e.Fn + "(" + strings.Join(xs, ", ") + ")"
}
func (e *SCond) String() string {
	return "(" + e.C.String() + " ? " + e.A.String() + " : " + e.B.String() + ")"
}
func (e *SQuant) String() string {
	q := "exists"
	if e.Forall {
		q = "forall"
	}
	var vs []string
	for _, v := range e.Vars {
		vs = append(vs, v.Name+" "+v.Type)
	}
	return "(" + q + " " + strings.Join(vs, ", ") + " :: " + e.Body.String() + ")"
}

type specParser struct {
	toks []stok
	p    int
	src  string
}

func parseSpecExpr(src string) (SExpr, error) {
	toks, err := lexSpec(src)
	if err != nil {
		return nil, err
	}
	ps := &specParser{toks: toks, src: src}
	e, err := ps.parseExpr(0)
	if err != nil {
		return nil, err
	}
	if ps.peek().kind != tEOF {
		return nil, fmt.Errorf("trailing input at %d in %q", ps.peek().pos, src)
	}
	return e, nil
}

func (ps *specParser) peek() stok { return ps.toks[ps.p] }
func (ps *specParser) next() stok {
	t := ps.toks[ps.p]
	if ps.p < len(ps.toks)-1 {
		ps.p++
	}
	return t
}
func (ps *specParser) accept(op string) bool {
	if t := ps.peek(); t.kind == tOp && t.text == op {
		ps.next()
		return true
	}
	return false
}
func (ps *specParser) expect(op string) error {
	if !ps.accept(op) {
		return fmt.Errorf("expected %q at %d in %q (got %q)", op, ps.peek().pos, ps.src, ps.peek().text)
	}
	return nil
}

// binding powers
var binPrec = map[string]int{
	"<==>": 1,
	"==>":  2,
	"?":    3,
	"||":   4,
	"&&":   5,
	"==":   6, "!=": 6, "<": 6, "<=": 6, ">": 6, ">=": 6,
	"+": 7, "-": 7,
	"*": 8, "/": 8, "%": 8,
}

func (ps *specParser) parseExpr(minPrec int) (SExpr, error) {
	lhs, err := ps.parseUnary()
	if err != nil {
		return nil, err
	}
	for {
		t := ps.peek()
		if t.kind != tOp {
			return lhs, nil
		}
		prec, ok := binPrec[t.text]
		if !ok || prec < minPrec {
			return lhs, nil
		}
		ps.next()
		switch t.text {
		case "?":
			a, err := ps.parseExpr(prec + 1)
			if err != nil {
				return nil, err
			}
			if err := ps.expect(":"); err != nil {
				return nil, err
			}
			b, err := ps.parseExpr(prec)
			if err != nil {
				return nil, err
			}
			lhs = &SCond{lhs, a, b}
		case "==>":
			rhs, err := ps.parseExpr(prec) // right assoc
			if err != nil {
				return nil, err
			}
			lhs = &SBin{"==>", lhs, rhs}
		default:
			rhs, err := ps.parseExpr(prec + 1)
			if err != nil {
				return nil, err
			}
			lhs = &SBin{t.text, lhs, rhs}
		}
	}
}

func (ps *specParser) parseUnary() (SExpr, error) {
	t := ps.peek()
	if t.kind == tOp && (t.text == "!" || t.text == "-" || t.text == "&") {
		ps.next()
		x, err := ps.parseUnary()
		if err != nil {
			return nil, err
		}
		return &SUn{t.text, x}, nil
	}
	if t.kind == tIdent && (t.text == "forall" || t.text == "exists") {
		ps.next()
		var vars []SQVar
		for {
			n := ps.next()
			if n.kind != tIdent {
				return nil, fmt.Errorf("expected bound variable at %d in %q", n.pos, ps.src)
			}
			ty := ps.next()
			if ty.kind != tIdent {
				return nil, fmt.Errorf("expected type of bound variable at %d in %q", ty.pos, ps.src)
			}
			vars = append(vars, SQVar{n.text, ty.text})
			if !ps.accept(",") {
				break
			}
		}
		if err := ps.expect("::"); err != nil {
			return nil, err
		}
		body, err := ps.parseExpr(0)
		if err != nil {
			return nil, err
		}
		return &SQuant{t.text == "forall", vars, body}, nil
	}
	return ps.parsePostfix()
}

func (ps *specParser) parsePostfix() (SExpr, error) {
	x, err := ps.parsePrimary()
	if err != nil {
		return nil, err
	}
	for {
		t := ps.peek()
		if t.kind != tOp {
			return x, nil
		}
		switch t.text {
		case ".":
			ps.next()
			n := ps.next()
			if n.kind != tIdent && n.kind != tInt {
				return nil, fmt.Errorf("expected field name at %d in %q", n.pos, ps.src)
			}
			x = &SSel{x, n.text}
		case "[":
			ps.next()
			i, err := ps.parseExpr(0)
			if err != nil {
				return nil, err
			}
			if err := ps.expect("]"); err != nil {
				return nil, err
			}
			x = &SIndex{x, i}
		case "(":
			id, ok := x.(*SIdent)
			if !ok {
				return x, nil
			}
			ps.next()
			var args []SExpr
			if !ps.accept(")") {
				for {
					a, err := ps.parseExpr(0)
					if err != nil {
						return nil, err
					}
					args = append(args, a)
					if ps.accept(")") {
						break
					}
					if err := ps.expect(","); err != nil {
						return nil, err
					}
				}
			}
			x = &SCall{id.Name, args}
		default:
			return x, nil
		}
	}
}

func (ps *specParser) parsePrimary() (SExpr, error) {
	t := ps.next()
	switch t.kind {
	case tIdent:
		return &SIdent{t.text}, nil
	case tInt:
		return &SIntLit{t.text}, nil
	case tFloat:
		return &SFltLit{t.text}, nil
	case tString:
		return &SStrLit{t.text}, nil
	case tOp:
		if t.text == "(" {
			e, err := ps.parseExpr(0)
			if err != nil {
				return nil, err
			}
			if err := ps.expect(")"); err != nil {
				return nil, err
			}
			return e, nil
		}
	}
	return nil, fmt.Errorf("unexpected token %q at %d in %q", t.text, t.pos, ps.src)
}
