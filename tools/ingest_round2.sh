#!/bin/bash
# ingest_round2.sh <Cxx> : copies the round-2 sub-agent output /tmp/seedout2/<Cxx>/{1,2} to seeded/_incoming/<Cxx>/{4,5}
id=$1
for j in 1 2; do
  s=/tmp/seedout2/$id/$j; [ -f $s/patch.diff ] || continue
  d=/verif/seeded/_incoming/$id/$((3+j)); mkdir -p $d; cp $s/patch.diff $s/demo_test.go $s/meta.json $d/ 2>/dev/null
  echo "$id/$((3+j)) <- $s"
done
