#!/bin/bash
# ingest_round3.sh <Cxx> : copies the round-3 sub-agent output /tmp/seedout3/<Cxx>/{1,2} to seeded/_incoming/<Cxx>/{6,7}
id=$1
for j in 1 2; do
  s=/tmp/seedout3/$id/$j; [ -f $s/patch.diff ] || continue
  d=/verif/seeded/_incoming/$id/$((5+j)); mkdir -p $d; cp $s/patch.diff $s/demo_test.go $s/meta.json $d/ 2>/dev/null
  echo "$id/$((5+j)) <- $s"
done
