#!/bin/bash
# confirm_seeded.sh <Cxx> <k> : confirms a sub-agent's seeded change on a scratch worktree of /repo HEAD:
# patch applies, tree builds, full suite passes with the patch, demo fails with the patch and passes without.
# Writes /verif/seeded/_confirm/<Cxx>_<k>.json. The worktree is removed afterwards.
export GOFLAGS=-mod=mod GOPROXY=off GOSUMDB=off GOTOOLCHAIN=local
id=$1; k=$2
src=/verif/seeded/_incoming/$id/$k
out=/verif/seeded/_confirm; mkdir -p $out
res=$out/${id}_$k.json
wt=/tmp/confirm_${id}_$k
log=$out/${id}_$k.log
: > $log
finish() { # status detail
  python3 - "$res" "$id" "$k" "$1" "$2" <<'PY'
import json,sys
json.dump({"property":sys.argv[2],"k":sys.argv[3],"status":sys.argv[4],"detail":sys.argv[5]},open(sys.argv[1],"w"),indent=1)
PY
  cd /; git -C /repo worktree remove --force $wt >/dev/null 2>&1; rm -rf $wt
  echo "$id/$k: $1 $2"
  exit 0
}
git -C /repo worktree remove --force $wt >/dev/null 2>&1; rm -rf $wt
git -C /repo worktree add --detach $wt HEAD >>$log 2>&1 || finish error "worktree"
cd $wt
git apply $src/patch.diff >>$log 2>&1 || finish patch-does-not-apply "against $(git -C /repo rev-parse --short HEAD)"
go build ./... >>$log 2>&1 || finish does-not-build ""
place=$(grep -m1 'PLACE:' $src/demo_test.go | sed 's/^.*PLACE: *//' | awk '{print $1}')
run=$(grep -m1 'RUN:' $src/demo_test.go | sed 's/^.*RUN: *//; s/^cd <repo> && //')
[ -z "$place" -o -z "$run" ] && finish error "demo has no PLACE/RUN header"
# suite with the patch (one retry of failing packages: a few tests are timing-sensitive)
if ! go test -vet=off -count=1 -timeout 25m ./... >$log.suite 2>&1; then
  pk=$(grep '^FAIL\s' $log.suite | awk '{print $2}' | grep form3 | sort -u)
  ok=1
  for p in $pk; do go test -vet=off -count=1 -timeout 25m $p >>$log.suite 2>&1 || ok=0; done
  [ $ok = 1 ] || finish suite-fails "$(echo $pk)"
fi
cp $src/demo_test.go $place
eval "$run" >$log.demo_with 2>&1; with=$?
git apply -R $src/patch.diff >>$log 2>&1 || finish error "cannot revert"
eval "$run" >$log.demo_without 2>&1; without=$?
if [ $with != 0 -a $without = 0 ]; then finish confirmed "suite passes with the change; demo fails with it (exit $with) and passes without"; fi
finish demo-mismatch "with=$with without=$without"
