#!/bin/bash
# seeded_matrix.sh [ids...] : for every promoted seeded change (seeded/Cxx-k) apply it to /repo, run the property's
# quick check (and, when the property is not claimed, nothing), record what failed, revert. Writes seeded/<id>/detection.json
# Works on a scratch worktree of /repo HEAD (removed afterwards); /repo itself is not touched.
export GOFLAGS=-mod=mod GOPROXY=off GOSUMDB=off GOTOOLCHAIN=local
cd /verif
ids="$@"; [ -z "$ids" ] && ids=$(ls -d seeded/C*-* | xargs -n1 basename | sort)
claimed=$(python3 -c "import json;print(' '.join(c['property_id'] for c in json.load(open('MANIFEST.json'))['checks']))")
R=/tmp/seeded_matrix_repo_$$
git -C /repo worktree add --detach $R HEAD >/dev/null 2>&1 || exit 2
trap 'cd /; git -C /repo worktree remove --force $R >/dev/null 2>&1; rm -rf $R' EXIT
for id in $ids; do
  prop=${id%-*}
  p=/verif/seeded/$id/patch.diff
  if ! git -C $R apply --check $p 2>/dev/null; then echo "$id patch-does-not-apply"; continue; fi
  git -C $R apply $p
  timeout 1500 bin/govc check $prop --repo $R ${MIRROR:---mirror} --no-replay --no-evidence 2>&1 | grep -v WARNING > /tmp/seedmx.$$.out
  git -C $R checkout -- .
  python3 - "$id" "$prop" "$claimed" /tmp/seedmx.$$.out <<'PY'
import json,sys
id,prop,claimed,path=sys.argv[1],sys.argv[2],sys.argv[3].split(),sys.argv[4]
out=open(path).read()
failed=[l.split()[1] for l in out.splitlines() if l.startswith("FAILED ")]
viol=[l for l in out.splitlines() if l.startswith("VIOLATION")]
d={"property":prop,"claimed":prop in claimed,"caught":len(viol)>0 and len(failed)>0,"failed_obligations":failed[:12],"summary":[l for l in out.splitlines() if l.startswith("govc:")][:1]}
json.dump(d,open(f"/verif/seeded/{id}/detection.json","w"),indent=1)
print(id, "CAUGHT" if d["caught"] else "missed", ", ".join(failed[:3]))
PY
  rm -f /tmp/seedmx.$$.out
done
