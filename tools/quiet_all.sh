#!/bin/bash
# quiet_all.sh [parallel] : runs tools/quiet_check.sh over the whole must-stay-quiet corpus (default 2 at a time);
# per-patch output in quiet/last_run/<id>.log, summary in quiet/last_run.log
cd /verif
par=${1:-2}
rm -rf quiet/last_run; mkdir -p quiet/last_run
ls -d quiet/s*-r* | xargs -n1 basename | xargs -P $par -I{} sh -c 'tools/quiet_check.sh /verif/quiet/{}/patch.diff > quiet/last_run/{}.log 2>&1'
cat quiet/last_run/*.log | grep -E "^(QUIET|ALARM|FAILED|PATCH)" > quiet/last_run.log
echo "quiet: $(grep -c '^QUIET' quiet/last_run.log) of $(ls -d quiet/s*-r* | wc -l) quiet" >> quiet/last_run.log
