#!/bin/bash
# try_patch.sh <patch.diff> <Cxx>... : applies a patch to a scratch worktree of /repo HEAD and runs the quick checks of the given
# properties there (mirror contracts, no replay, no evidence). Prints the FAILED/VIOLATION lines and the summary line.
export GOFLAGS=-mod=mod GOPROXY=off GOSUMDB=off GOTOOLCHAIN=local
p=$1; shift
R=/tmp/try_repo_$$
git -C /repo worktree add --detach $R HEAD >/dev/null 2>&1 || exit 2
trap 'cd /; git -C /repo worktree remove --force $R >/dev/null 2>&1; rm -rf $R' EXIT
git -C $R apply $p || { echo "PATCH-DOES-NOT-APPLY $p"; exit 3; }
cd /verif
for id in "$@"; do
  timeout 1500 bin/govc check $id --repo $R --mirror --no-replay --no-evidence 2>&1 | grep -E "^(FAILED|VIOLATION|govc:)" | cut -c1-230
done
