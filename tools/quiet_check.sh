#!/bin/bash
# quiet_check.sh <patch.diff> : applies a behaviour-preserving change to a scratch worktree of /repo HEAD and runs the quick
# checks of every property that has a function under contract in one of the touched files. Prints QUIET or the alarms.
export GOFLAGS=-mod=mod GOPROXY=off GOSUMDB=off GOTOOLCHAIN=local
p=$1
cd /verif
files=$(grep '^+++ b/' $p | sed 's/^+++ b\///')
props=$(python3 - $files <<'PY'
import json,glob,sys
files=set(sys.argv[1:])
out=set()
for f in glob.glob('/verif/evidence/C*.json'):
    d=json.load(open(f))
    for fn in d['coverage'].get('functions_under_contract',[]):
        src=(fn.get('source') or '').split(':')[0]
        # roots only: functions tagged with the property (callees pulled in by the closure are covered through the
        # checks of the properties they are tagged with)
        if src in files and not fn.get('included_because'): out.add(d['property_id'])
print(' '.join(sorted(out)))
PY
)
R=/tmp/quiet_repo_$$
git -C /repo worktree add --detach $R HEAD >/dev/null 2>&1 || exit 2
trap 'cd /; git -C /repo worktree remove --force $R >/dev/null 2>&1; rm -rf $R' EXIT
git -C $R apply $p || { echo "PATCH-DOES-NOT-APPLY $p"; exit 3; }
alarms=0
for id in $props; do
  out=$(timeout 1500 bin/govc check $id --repo $R --mirror --no-replay --no-evidence 2>&1 | grep -E "^(FAILED|VIOLATION)")
  if [ -n "$out" ]; then alarms=1; echo "ALARM $id on $(basename $p):"; echo "$out" | grep FAILED | cut -c1-200 | head -5; fi
done
[ $alarms = 0 ] && echo "QUIET $(basename $(dirname $p))/$(basename $p) (checked: $props)"
