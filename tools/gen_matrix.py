#!/usr/bin/env python3
"""Writes /verif/seeded/MATRIX.md from seeded/<id>/{meta.json,detection.json} and the mutant corpus."""
import json, glob, os
rows = []
for d in sorted(glob.glob("/verif/seeded/C*-*")):
    sid = os.path.basename(d)
    meta = json.load(open(f"{d}/meta.json"))
    det = json.load(open(f"{d}/detection.json")) if os.path.exists(f"{d}/detection.json") else None
    rows.append((sid, meta, det))
out = ["# Seeded changes: which check catches which change",
       "",
       "Each change was produced by an independent sub-agent that saw only the property text and a scratch worktree,",
       "and was confirmed here (`tools/confirm_seeded.sh`): it compiles, the whole test suite passes with it, its",
       "demonstration fails with it and passes without it. `tools/seeded_matrix.sh` applies each change to a scratch",
       "worktree of /repo HEAD and runs the quick check of its property. Regenerate this file with `tools/gen_matrix.py`.",
       "",
       "| change | property claimed | result | failing obligations (first ones) | what the change breaks |",
       "|--------|------------------|--------|----------------------------------|------------------------|"]
caught = missed = 0
for sid, meta, det in rows:
    if det is None:
        res, obs, cl = "not run", "", ""
    else:
        cl = "yes" if det.get("claimed") else "no"
        if meta.get("neutralised"):
            res = "FALSE ALARM" if det.get("caught") else "quiet (expected: neutralised change)"
        elif det.get("caught"):
            res = "**caught**"; caught += 1
        else:
            res = "missed"; missed += 1
        obs = "<br>".join(o.split("/", 2)[-1] if o.count("/") > 2 else o for o in det.get("failed_obligations", [])[:3])
    what = meta.get("breaks", "").replace("|", "/").replace("\n", " ")
    if len(what) > 260:
        what = what[:257] + "..."
    out.append(f"| {sid} | {cl} | {res} | {obs} | {what} |")
out += ["", f"Totals: {caught} caught, {missed} missed, of {len(rows) - sum(1 for _, m, _ in rows if m.get('neutralised'))} confirmed property-breaking changes (plus the neutralised ones, which must stay quiet).", "",
        "Not kept: C18-3 (the change made Stop return before the runner goroutine left its first timer wait; after the",
        "repair of Runner.Start, 21b8a41, Stop waits for that goroutine, so the change no longer violates its demonstration).",
        "Rebased onto the repaired tree (same semantic change, original kept as patch.orig.diff): C08-1, C08-3, C14-1."]
open("/verif/seeded/MATRIX.md", "w").write("\n".join(out) + "\n")
print(f"{caught} caught, {missed} missed of {len(rows)}")
