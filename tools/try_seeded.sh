#!/bin/bash
# usage: tools/try_seeded.sh <Cxx> <k> [dir]   applies seeded patch to /repo, runs the check, reverts
id=$1; k=$2; dir=${3:-/verif/seeded/_incoming}
p=$dir/$id/$k/patch.diff
[ -f "$p" ] || { echo "no patch $p"; exit 2; }
cd /repo || exit 2
if ! git apply --check "$p" 2>/dev/null; then echo "PATCH-DOES-NOT-APPLY $id/$k"; exit 3; fi
git apply "$p"
cd /verif && ./bin/govc check $id ${MIRROR:---mirror} --no-replay 2>&1 | grep -v WARNING | grep -E "^(FAILED|VIOLATION|govc:)" | cut -c1-220
cd /repo && git checkout -- . && git status --short | grep -v zz_contracts | head -3
