#!/usr/bin/env python3
"""Copies confirmed seeded changes from seeded/_incoming/<Cxx>/<k> to seeded/<Cxx>-<k>/ (patch.diff, demo_test.go, meta.json)."""
import json, os, shutil, glob, subprocess
base = subprocess.run(["git", "-C", "/repo", "rev-parse", "--short", "HEAD"], capture_output=True, text=True).stdout.strip()
for cf in sorted(glob.glob("/verif/seeded/_confirm/*.json")):
    c = json.load(open(cf))
    pid, k = c["property"], c["k"]
    src = f"/verif/seeded/_incoming/{pid}/{k}"
    dst = f"/verif/seeded/{pid}-{k}"
    if c["status"] != "confirmed":
        print("not confirmed:", pid, k, c["status"], c["detail"])
        if not os.path.exists(f"{dst}/meta.json"):
            continue
        # keep an already promoted change (e.g. one neutralised by a later fix) as it is
        continue
    os.makedirs(dst, exist_ok=True)
    shutil.copy(f"{src}/patch.diff", f"{dst}/patch.diff")
    shutil.copy(f"{src}/demo_test.go", f"{dst}/demo_test.go")
    if os.path.exists(f"{src}/patch.orig.diff"):
        shutil.copy(f"{src}/patch.orig.diff", f"{dst}/patch.orig.diff")
    meta = json.load(open(f"{src}/meta.json"))
    old = {}
    if os.path.exists(f"{dst}/meta.json"):
        old = json.load(open(f"{dst}/meta.json"))
    meta["id"] = f"{pid}-{k}"
    meta["confirmed"] = {"by": "tools/confirm_seeded.sh on a scratch worktree", "base_commit": old.get("confirmed", {}).get("base_commit", base),
                         "result": c["detail"], "rebased": os.path.exists(f"{src}/patch.orig.diff")}
    if "neutralised" in old:
        meta["neutralised"] = old["neutralised"]
    if "detection" in old:
        meta["detection"] = old["detection"]
    json.dump(meta, open(f"{dst}/meta.json", "w"), indent=1)
print("promoted", len(glob.glob("/verif/seeded/C*-*")))
