#!/usr/bin/env python3
"""Generates /verif/MANIFEST.json from the table below (kept in one place so the manifest is always valid)."""
import json, subprocess, os

HOOK_COMMITS = subprocess.run(["git", "-C", "/repo", "log", "--format=%H %s"], capture_output=True, text=True).stdout.splitlines()
hook_commits = [l.split()[0] for l in HOOK_COMMITS if l.split(" ", 1)[1].startswith("verif:")]

ENV = "GOFLAGS=-mod=mod GOPROXY=off GOSUMDB=off GOTOOLCHAIN=local"

# id -> dict(text=..., note=..., design=...)   (claimed checks)
CLAIMED = json.load(open(os.path.join(os.path.dirname(__file__), "claimed.json")))
NA = json.load(open(os.path.join(os.path.dirname(__file__), "not_applicable.json")))

checks = []
for pid in sorted(CLAIMED):
    c = CLAIMED[pid]
    checks.append({
        "property_id": pid,
        "quick_cmd": f"{ENV} bin/govc check {pid} --tier quick",
        "thorough_cmd": f"{ENV} bin/govc check {pid} --tier thorough",
        "evidence_file": f"/verif/evidence/{pid}.json",
        "replay_cmd_template": f"{ENV} bin/govc replay {{path}}",
        "engine": "govc",
        "level_claimed": {"category": "proof", "text": c["text"], "design_ref": c.get("design", "DESIGN.md §3 " + pid)},
        "level_note": c["note"],
        "technique": c.get("technique", "contract-based deductive verification: weakest-precondition VCs generated from go/ssa of the real code under //@ contracts, discharged by z3 / z3-new / cvc5"),
    })

manifest = {
    "version": 1,
    "setup_cmd": "cd /verif && GOFLAGS=-mod=vendor GOPROXY=off GOSUMDB=off GOTOOLCHAIN=local go build -o bin/govc ./cmd/govc",
    "hooks": {
        "guard": "verif",
        "enable": "go build -tags verif ./... (the hook files are comment-only zz_contracts_verif.go files; govc loads /repo with -tags=verif and reads their //@ lines)",
        "baseline_off_cmd": "cd /repo && GOFLAGS=-mod=mod GOPROXY=off GOSUMDB=off GOTOOLCHAIN=local go test -json -vet=off -count=1 -timeout 25m ./...",
        "source_commits": hook_commits,
        "add_only": True,
    },
    "engines": [{
        "name": "govc",
        "path": "/verif/cmd/govc",
        "serves_properties": sorted(CLAIMED),
        "kind_free_text": "Boogie-style verification-condition generator over go/ssa (x/tools v0.29.0, vendored) for Go functions under Gobra-flavoured //@ contracts; obligations discharged by a portfolio of z3 4.8.12, z3-new 5.1.0 and cvc5 1.0; counterexamples replayed on the real code through go test -overlay",
    }],
    "checks": checks,
    "notes": "Every check rebuilds SSA from /repo's working tree on every run. Contracts live in /repo/**/zz_contracts_verif.go (build tag verif, comment-only) with a byte-identical mirror under /verif/contracts/mirror used only when a tree lacks them. Known findings: /verif/known_findings.json. See DESIGN.md.",
    "not_applicable": [{"property_id": k, "reason": NA[k]} for k in sorted(NA) if k not in CLAIMED],
}
json.dump(manifest, open("/verif/MANIFEST.json", "w"), indent=1)
print("claimed:", sorted(CLAIMED), "not_applicable:", len(manifest["not_applicable"]))
