#!/bin/bash
# selftest_all.sh : runs the must-fail corpus property by property (one process each: a single process over all
# 70 mutants is killed for its memory), appending to selftest/last_run.log. Exit 1 if any mutant is missed.
cd /verif
log=selftest/last_run.log
: > $log
rc=0
for i in 01 02 03 04 05 06 07 08 09 10 11 12 13 14 15 16 17 18 19 20; do
  bin/govc selftest C$i --mirror 2>&1 | grep -v "^WARNING" >> $log || rc=1
done
grep -c "^CAUGHT" $log | sed 's/^/caught: /' >> $log
grep "^MISSED" $log | sed 's/^/missed: /' >> $log
exit $rc
