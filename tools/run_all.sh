#!/bin/bash
# runs every claimed check (quick tier by default) on the current /repo tree; prints one summary line per property
export GOFLAGS=-mod=mod GOPROXY=off GOSUMDB=off GOTOOLCHAIN=local
tier=${1:-quick}
cd /verif
for id in $(python3 -c "import json;print(' '.join(c['property_id'] for c in json.load(open('MANIFEST.json'))['checks']))"); do
  out=$(timeout 3000 bin/govc check $id --tier $tier 2>&1); rc=$?
  echo "$id rc=$rc $(echo "$out" | grep 'govc: property' | cut -c1-160)"
  echo "$out" | grep "VIOLATION\|KNOWN-FINDING\|FAILED" | head -5
done
