#!/bin/bash
# ingest_round4.sh <Cxx> : copies the round-4 sub-agent output /tmp/seedout4/<Cxx>/{1,2} to seeded/_incoming/<Cxx>/{8,9}
id=$1
for j in 1 2; do
  s=/tmp/seedout4/$id/$j; [ -f $s/patch.diff ] || continue
  d=/verif/seeded/_incoming/$id/$((7+j)); mkdir -p $d; cp $s/patch.diff $s/demo_test.go $s/meta.json $d/ 2>/dev/null
  echo "$id/$((7+j)) <- $s"
done
