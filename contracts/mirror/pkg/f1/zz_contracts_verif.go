//go:build verif

// Contracts for package f1 (comment-only; read by /verif/bin/govc, see /verif/DESIGN.md §2.3).
package f1

//@ // ---- C20: combined scenarios run every component, in order
//@ ghost var G20set int
//@ ghost var G20run int
//@ ghost var G20n int
//@ ghost var G20ret map[int]int
//@
//@ func CombineScenarios$1
//@   props C20 C04 C07 C03
//@   maypanic
//@   requires t != nil
//@   dyncall scenarios : userSetup
//@   inv forall j int :: 0 <= j && j < len(scenarios) ==> scenarios[j] != nil
//@   modifies t.failed, t.teardownFailed, t.teardownStack, Gmarks, G20set, G20ret, G20n
//@   loop 0 invariant -1 <= rangeindex && rangeindex < len(scenarios) && len(run) == rangeindex + 1 && G20set == old(G20set) + rangeindex + 1
//@   loop 0 invariant forall j int :: 0 <= j && j <= rangeindex ==> run[j] == G20ret[j] && run[j] != nil
//@   ghost before call dyn:scenarios : assert [order] G20set == old(G20set) + rangeindex + 1 ; assert [handle] arg0 == t ; G20set = G20set + 1
//@   ghost after call dyn:scenarios : G20ret[rangeindex + 1] = ret0
//@   ghost before call closure:CombineScenarios$1$1 : G20n = len(run)
//@   ensures [all] G20set == old(G20set) + len(scenarios)
//@   ensures [result] result != nil
//@   onpanic [prefix] G20set <= old(G20set) + len(scenarios)
//@
//@ func CombineScenarios$1$1
//@   props C20 C04 C07 C03
//@   maypanic
//@   requires t != nil
//@   dyncall run : userIter
//@   inv len(run) == G20n && (forall j int :: 0 <= j && j < len(run) ==> run[j] == G20ret[j] && run[j] != nil)
//@   modifies t.failed, t.teardownFailed, t.teardownStack, Gmarks, G20run
//@   loop 0 invariant -1 <= rangeindex && rangeindex < len(run) && G20run == old(G20run) + rangeindex + 1
//@   ghost before call dyn:run : assert [order] G20run == old(G20run) + rangeindex + 1 ; assert [component] callee == G20ret[rangeindex + 1] ; assert [handle] arg0 == t ; G20run = G20run + 1
//@   ensures [all] G20run == old(G20run) + len(run)
//@   onpanic [stops] G20run <= old(G20run) + len(run)
//@
//@ func CombineScenarios
//@   props C20
//@   requires forall j int :: 0 <= j && j < len(scenarios) ==> scenarios[j] != nil
//@   ensures result != nil
//@
//@ // ---- C08 (CLI half): whatever the command returned is what execute / ExecuteWithArgs return: an error of the run
//@ // command is never replaced by nil on the way out (stopping the profiler, joining errors, wrapping).
//@ ghost var G8cmdFailed bool
//@ ghost var G8execFailed bool
//@ func buildRootCmd
//@   props C08
//@   trusted construction of the cobra command tree (flag registration, sub-commands); the run sub-command's RunE is runCmdExecute$1, verified on its own
//@   modifies nothing
//@   ensures (result.1 == nil ==> result.0 != nil) && (result.1 != nil ==> result.0 == nil)
//@
//@ func newSignalContext
//@   props C08
//@   trusted spawns the signal-forwarding goroutine; returns a context
//@   modifies nothing
//@   ensures result != nil
//@
//@ func (*profiling).stop
//@   props C08
//@   trusted pprof plumbing (stops the CPU profile, writes the heap profile): no effect on modelled state
//@   modifies nothing
//@
//@ func (*F1).execute
//@   props C08
//@   requires f != nil && f.profiling != nil && f.options != nil
//@   ghost at entry : G8cmdFailed = false
//@   ghost after call (*Command).ExecuteContext : G8cmdFailed = (ret0 != nil)
//@   ensures [command-error-is-returned] G8cmdFailed ==> result != nil
//@
//@ func (*F1).ExecuteWithArgs
//@   props C08
//@   requires f != nil && f.profiling != nil && f.options != nil
//@   ghost at entry : G8execFailed = false
//@   ghost after call (*F1).execute : G8execFailed = (ret0 != nil)
//@   ensures [error-iff-execute-failed] (G8execFailed ==> result != nil) && (!G8execFailed ==> result == nil)
