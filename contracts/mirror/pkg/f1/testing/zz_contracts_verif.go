//go:build verif

// Contracts for package testing (comment-only; read by /verif/bin/govc, see /verif/DESIGN.md §2.3).
package testing

//@ // ---- most general scenario code (C06, C07, C20): what any ScenarioFn body, RunFn, cleanup or
//@ // combined component may do to the handle it is given. It may call the Fail family (sets failed, or
//@ // teardownFailed while tearing down; never clears either), register cleanups (append only), panic
//@ // with any value, or return. It touches nothing else of T.
//@ ghost var marked bool
//@
//@ fnspec userIter(t *T)
//@   maypanic
//@   modifies t.failed, t.teardownFailed, t.teardownStack, marked
//@   ensures old(t.failed) ==> t.failed
//@   ensures old(t.teardownFailed) ==> t.teardownFailed
//@   ensures old(marked) ==> marked
//@   ensures (t.failed && !old(t.failed)) ==> (marked && !t.tearingDown)
//@   ensures (t.teardownFailed && !old(t.teardownFailed)) ==> t.tearingDown
//@   ensures len(t.teardownStack) >= old(len(t.teardownStack))
//@   ensures forall j int :: 0 <= j && j < old(len(t.teardownStack)) ==> t.teardownStack[j] == old(t.teardownStack[j])
//@   ensures forall j int :: 0 <= j && j < len(t.teardownStack) ==> t.teardownStack[j] != nil
//@   onpanic old(t.failed) ==> t.failed
//@   onpanic old(t.teardownFailed) ==> t.teardownFailed
//@   onpanic old(marked) ==> marked
//@   onpanic (t.failed && !old(t.failed)) ==> (marked && !t.tearingDown)
//@   onpanic (t.teardownFailed && !old(t.teardownFailed)) ==> t.tearingDown
//@   onpanic len(t.teardownStack) >= old(len(t.teardownStack))
//@   onpanic forall j int :: 0 <= j && j < old(len(t.teardownStack)) ==> t.teardownStack[j] == old(t.teardownStack[j])
//@   onpanic forall j int :: 0 <= j && j < len(t.teardownStack) ==> t.teardownStack[j] != nil
//@
//@ fnspec userSetup(t *T) (r RunFn)
//@   maypanic
//@   modifies t.failed, t.teardownFailed, t.teardownStack, marked
//@   ensures r != nil
//@   ensures old(t.failed) ==> t.failed
//@   ensures old(t.teardownFailed) ==> t.teardownFailed
//@   ensures len(t.teardownStack) >= old(len(t.teardownStack))
//@   ensures forall j int :: 0 <= j && j < old(len(t.teardownStack)) ==> t.teardownStack[j] == old(t.teardownStack[j])
//@   onpanic old(t.failed) ==> t.failed
//@   onpanic old(t.teardownFailed) ==> t.teardownFailed
//@   onpanic len(t.teardownStack) >= old(len(t.teardownStack))
//@   onpanic forall j int :: 0 <= j && j < old(len(t.teardownStack)) ==> t.teardownStack[j] == old(t.teardownStack[j])
