//go:build verif

// Contracts for package testing (comment-only; read by /verif/bin/govc, see /verif/DESIGN.md §2.3).
package testing

//@ // ---- most general scenario code (C06, C07, C20): what any ScenarioFn body, RunFn, cleanup or
//@ // combined component may do to the handle it is given. It may call the Fail family (sets failed, or
//@ // teardownFailed while tearing down; never clears either), register cleanups (append only), panic
//@ // with any value, or return. It touches nothing else of T.
//@ ghost var Gmarks int
//@
//@ fnspec userIter(t *T)
//@   maypanic
//@   modifies t.failed, t.teardownFailed, t.teardownStack, Gmarks
//@   ensures old(t.failed) ==> t.failed
//@   ensures old(t.teardownFailed) ==> t.teardownFailed
//@   ensures Gmarks >= old(Gmarks)
//@   ensures (t.failed && !old(t.failed)) ==> (Gmarks > old(Gmarks) && !t.tearingDown)
//@   ensures Gmarks > old(Gmarks) ==> (t.tearingDown ? t.teardownFailed : t.failed)
//@   ensures (t.teardownFailed && !old(t.teardownFailed)) ==> t.tearingDown
//@   ensures len(t.teardownStack) >= old(len(t.teardownStack)) && !isnil(t.teardownStack)
//@   ensures forall j int :: 0 <= j && j < old(len(t.teardownStack)) ==> t.teardownStack[j] == old(t.teardownStack[j])
//@   ensures forall j int :: 0 <= j && j < len(t.teardownStack) ==> t.teardownStack[j] != nil
//@   onpanic old(t.failed) ==> t.failed
//@   onpanic old(t.teardownFailed) ==> t.teardownFailed
//@   onpanic Gmarks >= old(Gmarks)
//@   onpanic (t.failed && !old(t.failed)) ==> (Gmarks > old(Gmarks) && !t.tearingDown)
//@   onpanic Gmarks > old(Gmarks) ==> (t.tearingDown ? t.teardownFailed : t.failed)
//@   onpanic (t.teardownFailed && !old(t.teardownFailed)) ==> t.tearingDown
//@   onpanic len(t.teardownStack) >= old(len(t.teardownStack)) && !isnil(t.teardownStack)
//@   onpanic forall j int :: 0 <= j && j < old(len(t.teardownStack)) ==> t.teardownStack[j] == old(t.teardownStack[j])
//@   onpanic forall j int :: 0 <= j && j < len(t.teardownStack) ==> t.teardownStack[j] != nil
//@   onpanic errorsIs(panicValue, errFailNow) ==> (t.tearingDown ? t.teardownFailed : t.failed)
//@
//@ fnspec userSetup(t *T) (r RunFn)
//@   maypanic
//@   modifies t.failed, t.teardownFailed, t.teardownStack, Gmarks
//@   ensures r != nil
//@   ensures old(t.failed) ==> t.failed
//@   ensures old(t.teardownFailed) ==> t.teardownFailed
//@   ensures Gmarks >= old(Gmarks)
//@   ensures (t.failed && !old(t.failed)) ==> (Gmarks > old(Gmarks) && !t.tearingDown)
//@   ensures Gmarks > old(Gmarks) ==> (t.tearingDown ? t.teardownFailed : t.failed)
//@   ensures (t.teardownFailed && !old(t.teardownFailed)) ==> t.tearingDown
//@   ensures len(t.teardownStack) >= old(len(t.teardownStack)) && !isnil(t.teardownStack)
//@   ensures forall j int :: 0 <= j && j < old(len(t.teardownStack)) ==> t.teardownStack[j] == old(t.teardownStack[j])
//@   ensures forall j int :: 0 <= j && j < len(t.teardownStack) ==> t.teardownStack[j] != nil
//@   onpanic old(t.failed) ==> t.failed
//@   onpanic old(t.teardownFailed) ==> t.teardownFailed
//@   onpanic Gmarks >= old(Gmarks)
//@   onpanic (t.failed && !old(t.failed)) ==> (Gmarks > old(Gmarks) && !t.tearingDown)
//@   onpanic Gmarks > old(Gmarks) ==> (t.tearingDown ? t.teardownFailed : t.failed)
//@   onpanic (t.teardownFailed && !old(t.teardownFailed)) ==> t.tearingDown
//@   onpanic len(t.teardownStack) >= old(len(t.teardownStack)) && !isnil(t.teardownStack)
//@   onpanic forall j int :: 0 <= j && j < old(len(t.teardownStack)) ==> t.teardownStack[j] == old(t.teardownStack[j])
//@   onpanic forall j int :: 0 <= j && j < len(t.teardownStack) ==> t.teardownStack[j] != nil
//@   onpanic errorsIs(panicValue, errFailNow) ==> (t.tearingDown ? t.teardownFailed : t.failed)
//@
//@ globalinv {C07} errFailNow != nil
//@ globalinv {C06} errFailNow != nil
//@
//@ pred wfT(t *T) = t != nil && !isnil(t.teardownStack) && (forall j int :: 0 <= j && j < len(t.teardownStack) ==> t.teardownStack[j] != nil)
//@
//@ // ---- C07: failure API
//@ func (*T).Fail
//@   props C07 C06 C08
//@   modifies t.failed, t.teardownFailed, Gmarks
//@   ghost at exit : Gmarks = Gmarks + 1
//@   ensures [flag] t.tearingDown ? (t.teardownFailed && t.failed == old(t.failed)) : (t.failed && t.teardownFailed == old(t.teardownFailed))
//@   ensures [marked] Gmarks == old(Gmarks) + 1
//@
//@ func (*T).FailNow
//@   props C07 C06
//@   panics
//@   modifies t.failed, t.teardownFailed, Gmarks
//@   ghost before call (*Bool).Store : Gmarks = Gmarks + 1
//@   onpanic [flag] t.tearingDown ? (t.teardownFailed && t.failed == old(t.failed)) : (t.failed && t.teardownFailed == old(t.teardownFailed))
//@   onpanic [sentinel] panicValue == errFailNow && Gmarks > old(Gmarks)
//@
//@ func (*T).Failed
//@   props C07 C06 C16 C17
//@   modifies nothing
//@   ensures result == t.failed
//@
//@ func (*T).TeardownFailed
//@   props C06 C08
//@   modifies nothing
//@   ensures result == t.teardownFailed
//@
//@ func (*T).Reset
//@   props C07 C06 C03
//@   modifies t.Iteration, t.failed, t.teardownFailed, t.tearingDown, t.teardownStack
//@   ensures [clean] !t.failed && !t.teardownFailed && !t.tearingDown && len(t.teardownStack) == 0 && t.Iteration == iter && wfT(t)
//@
//@ func (*T).Reset @taken
//@   props C02 C03
//@   modifies t.Iteration, t.failed, t.teardownFailed, t.tearingDown, t.teardownStack
//@
//@ func (*T).Cleanup
//@   props C06
//@   requires wfT(t) && f != nil
//@   modifies t.teardownStack
//@   ensures [pushed] len(t.teardownStack) == old(len(t.teardownStack)) + 1 && t.teardownStack[old(len(t.teardownStack))] == f
//@   ensures [kept] forall j int :: 0 <= j && j < old(len(t.teardownStack)) ==> t.teardownStack[j] == old(t.teardownStack[j])
//@   ensures wfT(t)
//@
//@ func (*T).Errorf
//@   props C07
//@   modifies t.failed, t.teardownFailed, Gmarks
//@   ensures t.tearingDown ? (t.teardownFailed && t.failed == old(t.failed)) : (t.failed && t.teardownFailed == old(t.teardownFailed))
//@   ensures Gmarks > old(Gmarks)
//@
//@ func (*T).Error
//@   props C07
//@   requires err != nil
//@   modifies t.failed, t.teardownFailed, Gmarks
//@   ensures t.tearingDown ? (t.teardownFailed && t.failed == old(t.failed)) : (t.failed && t.teardownFailed == old(t.teardownFailed))
//@   ensures Gmarks > old(Gmarks)
//@
//@ func (*T).Fatalf
//@   props C07
//@   panics
//@   modifies t.failed, t.teardownFailed, Gmarks
//@   onpanic t.tearingDown ? (t.teardownFailed && t.failed == old(t.failed)) : (t.failed && t.teardownFailed == old(t.teardownFailed))
//@   onpanic panicValue == errFailNow && Gmarks > old(Gmarks)
//@
//@ func (*T).Fatal
//@   props C07
//@   requires err != nil
//@   panics
//@   modifies t.failed, t.teardownFailed, Gmarks
//@   onpanic t.tearingDown ? (t.teardownFailed && t.failed == old(t.failed)) : (t.failed && t.teardownFailed == old(t.teardownFailed))
//@   onpanic panicValue == errFailNow && Gmarks > old(Gmarks)
//@
//@ // ---- C07/C06: recovery. handlePanic classifies a recovered value: nil = no panic, the FailNow sentinel =
//@ // already marked by FailNow, anything else = mark failed now.
//@ // C20 / C07: a timed stage does not swallow a stop: if the stage function ends by FailNow or a panic, so does Time
//@ // (the rest of the component and the later components of a combined scenario do not run)
//@ ghost var GTstagePanicked bool
//@ fnspec stageFn()
//@   maypanic
//@   modifies all
//@
//@ func (*T).Time
//@   props C20 C07 C06
//@   maypanic
//@   requires t != nil && f != nil
//@   dyncall f : stageFn
//@   ghost at entry : GTstagePanicked = false
//@   ghost onpanic call dyn:f : GTstagePanicked = true
//@   ensures [a-stage-that-stops-is-not-swallowed] !GTstagePanicked
//@
//@ func recordTime
//@   props C20 C07 C06
//@   trusted records the stage duration metric; no effect on the failure flags
//@   modifies nothing
//@
//@ // the panic value is arbitrary scenario data: classifying it (errors.Is -> its Is/Unwrap methods) and rendering it
//@ // (ErrorAttr -> its Error method) runs scenario code that may panic itself; handlePanic's own deferred function
//@ // contains that second panic and still marks the failure
//@ func handlePanic$1
//@   props C07 C06 C08
//@   recovers
//@   requires t != nil
//@   modifies t.failed, t.teardownFailed, Gmarks
//@   ensures [second-panic-fails] recovered != nil ==> ((t.tearingDown ? t.teardownFailed : t.failed) && Gmarks > old(Gmarks))
//@   ensures [noop] recovered == nil ==> (t.failed == old(t.failed) && t.teardownFailed == old(t.teardownFailed) && Gmarks == old(Gmarks))
//@   ensures [monotone] (old(t.failed) ==> t.failed) && (old(t.teardownFailed) ==> t.teardownFailed)
//@   ensures [other-flag] t.tearingDown ? t.failed == old(t.failed) : t.teardownFailed == old(t.teardownFailed)
//@
//@ func handlePanic
//@   props C07 C06 C08
//@   arbitrary recovered
//@   requires t != nil
//@   requires errorsIs(recovered, errFailNow) ==> (t.tearingDown ? t.teardownFailed : t.failed)
//@   modifies t.failed, t.teardownFailed, Gmarks
//@   ensures [nopanic-noop] recovered == nil ==> t.failed == old(t.failed) && t.teardownFailed == old(t.teardownFailed)
//@   ensures [panic-fails] recovered != nil ==> (t.tearingDown ? t.teardownFailed : t.failed)
//@   ensures [monotone] (old(t.failed) ==> t.failed) && (old(t.teardownFailed) ==> t.teardownFailed)
//@   ensures [other-flag] t.tearingDown ? t.failed == old(t.failed) : t.teardownFailed == old(t.teardownFailed)
//@   ensures [marks] Gmarks >= old(Gmarks) && (recovered == nil ==> Gmarks == old(Gmarks)) && (Gmarks > old(Gmarks) ==> (t.tearingDown ? t.teardownFailed : t.failed))
//@
//@ func CheckResults
//@   props C07 C06 C08
//@   recovers
//@   unreachable 1
//@   requires t != nil && done == nil
//@   requires errorsIs(recovered, errFailNow) ==> (t.tearingDown ? t.teardownFailed : t.failed)
//@   modifies t.failed, t.teardownFailed, Gmarks
//@   ensures [nopanic-noop] recovered == nil ==> t.failed == old(t.failed) && t.teardownFailed == old(t.teardownFailed)
//@   ensures [panic-fails] recovered != nil ==> (t.tearingDown ? t.teardownFailed : t.failed)
//@   ensures [monotone] (old(t.failed) ==> t.failed) && (old(t.teardownFailed) ==> t.teardownFailed)
//@   ensures [other-flag] t.tearingDown ? t.failed == old(t.failed) : t.teardownFailed == old(t.teardownFailed)
//@   ensures [marks] Gmarks >= old(Gmarks) && (recovered == nil ==> Gmarks == old(Gmarks)) && (Gmarks > old(Gmarks) ==> (t.tearingDown ? t.teardownFailed : t.failed))
//@
//@ // ---- C06: cleanups run exactly once, in reverse registration order, each individually recovered
//@ ghost var Gcalled map[int]int
//@ ghost var GlastCalled int
//@
//@ fnspec userCleanup(t *T)
//@   maypanic
//@   modifies t.failed, t.teardownFailed, t.teardownStack, Gmarks
//@   ensures old(t.failed) ==> t.failed
//@   ensures old(t.teardownFailed) ==> t.teardownFailed
//@   ensures (t.failed && !old(t.failed)) ==> (Gmarks > old(Gmarks) && !t.tearingDown)
//@   ensures Gmarks > old(Gmarks) ==> (t.tearingDown ? t.teardownFailed : t.failed)
//@   ensures (t.teardownFailed && !old(t.teardownFailed)) ==> t.tearingDown
//@   ensures len(t.teardownStack) >= old(len(t.teardownStack)) && !isnil(t.teardownStack)
//@   ensures forall j int :: 0 <= j && j < old(len(t.teardownStack)) ==> t.teardownStack[j] == old(t.teardownStack[j])
//@   ensures forall j int :: 0 <= j && j < len(t.teardownStack) ==> t.teardownStack[j] != nil
//@   onpanic old(t.failed) ==> t.failed
//@   onpanic old(t.teardownFailed) ==> t.teardownFailed
//@   onpanic (t.failed && !old(t.failed)) ==> (Gmarks > old(Gmarks) && !t.tearingDown)
//@   onpanic Gmarks > old(Gmarks) ==> (t.tearingDown ? t.teardownFailed : t.failed)
//@   onpanic (t.teardownFailed && !old(t.teardownFailed)) ==> t.tearingDown
//@   onpanic len(t.teardownStack) >= old(len(t.teardownStack)) && !isnil(t.teardownStack)
//@   onpanic forall j int :: 0 <= j && j < old(len(t.teardownStack)) ==> t.teardownStack[j] == old(t.teardownStack[j])
//@   onpanic forall j int :: 0 <= j && j < len(t.teardownStack) ==> t.teardownStack[j] != nil
//@   onpanic errorsIs(panicValue, errFailNow) ==> (t.tearingDown ? t.teardownFailed : t.failed)
//@
//@ func (*T).teardown$1
//@   props C06
//@   requires wfT(t) && t.tearingDown && 0 <= i && i < len(t.teardownStack)
//@   requires GlastCalled == i + 1
//@   dyncall teardownStack : userCleanup(t)
//@   ghost before call dyn:teardownStack : Gcalled[i] = Gcalled[i] + 1 ; GlastCalled = i
//@   modifies t.failed, t.teardownFailed, t.teardownStack, Gmarks, Gcalled, GlastCalled
//@   ensures [once] Gcalled[i] == old(Gcalled[i]) + 1 && GlastCalled == i
//@   ensures [others] forall j int :: j != i ==> Gcalled[j] == old(Gcalled[j])
//@   ensures [stack] len(t.teardownStack) >= old(len(t.teardownStack))
//@   ensures [kept] forall j int :: 0 <= j && j < old(len(t.teardownStack)) ==> t.teardownStack[j] == old(t.teardownStack[j])
//@   ensures [flags] t.failed == old(t.failed) && (old(t.teardownFailed) ==> t.teardownFailed)
//@   ensures [wf] wfT(t) && t.tearingDown
//@
//@ func (*T).teardown
//@   props C06
//@   requires wfT(t)
//@   ghost at entry : GlastCalled = len(t.teardownStack)
//@   modifies t.tearingDown, t.failed, t.teardownFailed, t.teardownStack, Gmarks, Gcalled, GlastCalled
//@   loop 0 invariant -1 <= i && i < old(len(t.teardownStack)) && GlastCalled == i + 1 && wfT(t) && t.tearingDown
//@   loop 0 invariant len(t.teardownStack) >= old(len(t.teardownStack))
//@   loop 0 invariant forall j int :: 0 <= j && j < old(len(t.teardownStack)) ==> t.teardownStack[j] == old(t.teardownStack[j])
//@   loop 0 invariant forall j int :: i < j && j < old(len(t.teardownStack)) ==> Gcalled[j] == old(Gcalled[j]) + 1
//@   loop 0 invariant forall j int :: (j <= i || j >= old(len(t.teardownStack))) ==> Gcalled[j] == old(Gcalled[j])
//@   loop 0 invariant t.failed == old(t.failed) && (old(t.teardownFailed) ==> t.teardownFailed)
//@   ensures [tearing] t.tearingDown && wfT(t)
//@   ensures [each-once] forall j int :: 0 <= j && j < old(len(t.teardownStack)) ==> Gcalled[j] == old(Gcalled[j]) + 1
//@   ensures [only-those] forall j int :: (j < 0 || j >= old(len(t.teardownStack))) ==> Gcalled[j] == old(Gcalled[j])
//@   ensures [lifo] GlastCalled == 0 || old(len(t.teardownStack)) == 0
//@   ensures [body-flag-kept] t.failed == old(t.failed) && (old(t.teardownFailed) ==> t.teardownFailed)
//@
//@ // ---- construction of handles (C04: every worker owns a fresh handle)
//@ fnspec tOption(t *T)
//@   modifies t.logger, t.logrusLogger, t.Iteration
//@
//@ func NewTWithOptions
//@   props C04 C06 C07
//@   modifies nothing
//@   requires forall j int :: 0 <= j && j < len(options) ==> options[j] != nil
//@   dyncall options : tOption
//@   loop 0 invariant -1 <= rangeindex && rangeindex < len(options) && wfT(t) && !t.failed && !t.teardownFailed && !t.tearingDown && len(t.teardownStack) == 0 && t.Scenario == scenarioName
//@   ensures [fresh] fresh(result.0) && wfT(result.0)
//@   ensures [clean] !result.0.failed && !result.0.teardownFailed && !result.0.tearingDown && len(result.0.teardownStack) == 0 && result.0.Scenario == scenarioName
//@   ensures [teardown] isBound(result.1, result.0, "teardown")
//@
//@ func WithLogger
//@   props C04
//@   modifies nothing
//@   ensures result != nil
//@
//@ func WithLogrusLogger
//@   props C04
//@   modifies nothing
//@   ensures result != nil
//@
//@ func WithIteration
//@   props C04
//@   modifies nothing
//@   ensures result != nil
