//go:build verif

// Contracts for package scenarios (comment-only; read by /verif/bin/govc, see /verif/DESIGN.md §2.3).
package scenarios

//@ func (*Scenarios).GetScenario
//@   props C14 C08 C06
//@   requires s != nil
//@   modifies nothing
