//go:build verif

// Contracts for package options (comment-only; read by /verif/bin/govc, see /verif/DESIGN.md §2.3).
package options

//@ func (*RunOptions).LogToFile
//@   props C14 C08 C06
//@   requires o != nil
//@   modifies nothing
