//go:build verif

// Contracts for package views (comment-only; read by /verif/bin/govc, see /verif/DESIGN.md §2.3).
package views

//@ // ---- C19: a view context carries exactly the data it was built from; the structured-log form passes the same
//@ // counts on, in the order the attribute group names them; the banner matches the verdict; the template helper
//@ // functions never panic and percent is the share.
//@ func (*Views).Result
//@   props C19
//@   requires v != nil
//@   modifies nothing
//@   ensures [same-data] result != nil && fresh(result) && deref(result.data) == data && result.view == v.result
//@
//@ func (*Views).Progress
//@   props C19
//@   requires v != nil
//@   modifies nothing
//@   ensures [same-data] result != nil && fresh(result) && deref(result.data) == data && result.view == v.progress
//@
//@ func (ResultData).Log
//@   props C19
//@   requires logger != nil
//@   assert before call log.IterationStatsGroup : [same-counts] arg0 == d.IterationsStarted && arg1 == d.SuccessfulIterationCount && arg2 == d.FailedIterationCount && arg3 == d.DroppedIterationCount && arg4 == d.Duration
//@   assert before call (*Logger).Error : [banner-failed] d.Failed
//@   assert before call (*Logger).Info : [banner-passed] !d.Failed
//@
//@ func (ProgressData).Log
//@   props C19
//@   requires logger != nil
//@   assert before call log.IterationStatsGroup : [same-counts] arg0 == (d.SuccessfulIterationCount + d.FailedIterationCount + d.DroppedIterationCount) % 18446744073709551616 && arg1 == d.SuccessfulIterationCount && arg2 == d.FailedIterationCount && arg3 == d.DroppedIterationCount && arg4 == d.Period
//@
//@ // template helper "rate": iterations per second over the duration rounded to whole seconds; 0 for less than half a second
//@ func parseTemplates$1
//@   props C19
//@   fp-inexact
//@   modifies nothing
//@
//@ func parseTemplates$2
//@   props C19
//@   modifies nothing
//@
//@ func parseTemplates$3
//@   props C19
//@   modifies nothing
//@
//@ // template helper "percent": val's share of total, in percent (any inputs: a zero total gives Inf/NaN, never a panic)
//@ func parseTemplates$4
//@   props C19
//@   fp-inexact
//@   modifies nothing
//@   ensures [share] total > 0 && val <= total ==> abs(result - 100.0 * real(val) / real(total)) <= 0.000001
//@
//@ func (*Views).Start
//@   props C19 C06 C05
//@   requires v != nil
//@   modifies nothing
//@   ensures [same-data] result != nil && fresh(result) && deref(result.data) == data && result.view == v.start
//@
//@ func (*Views).Setup
//@   props C19 C06 C05
//@   requires v != nil
//@   modifies nothing
//@   ensures [same-data] result != nil && fresh(result) && deref(result.data) == data && result.view == v.setup
//@
//@ func (*Views).Teardown
//@   props C19 C06 C05
//@   requires v != nil
//@   modifies nothing
//@   ensures [same-data] result != nil && fresh(result) && deref(result.data) == data && result.view == v.teardown
//@
//@ func (*Views).Timeout
//@   props C19 C06 C05
//@   requires v != nil
//@   modifies nothing
//@   ensures [same-data] result != nil && fresh(result) && deref(result.data) == data && result.view == v.timeout
//@
//@ func (*Views).MaxIterationsReached
//@   props C19 C06 C05
//@   requires v != nil
//@   modifies nothing
//@   ensures [same-data] result != nil && fresh(result) && deref(result.data) == data && result.view == v.maxIterationsReached
//@
//@ func (*Views).Interrupt
//@   props C19 C06 C05
//@   requires v != nil
//@   modifies nothing
//@   ensures [same-data] result != nil && fresh(result) && deref(result.data) == data && result.view == v.interrupt
//@
//@ func New
//@   props C14 C08 C06
//@   trusted parses the built-in templates (template.Must panics only on a malformed built-in template: covered by the golden tests); no effect on modelled state
//@   modifies nothing
//@   ensures result != nil && fresh(result)
