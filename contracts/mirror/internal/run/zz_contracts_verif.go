//go:build verif

// Contracts for package run (comment-only; read by /verif/bin/govc, see /verif/DESIGN.md §2.3).
package run

//@ pred wfResult(r *Result) = (isnil(r.errors) <==> len(r.errors) == 0) &&
//@     (forall j int :: 0 <= j && j < len(r.errors) ==> r.errors[j] != nil)
//@
//@ func (*Result).AddError
//@   props C08 C06
//@   requires wfResult(r) && err != nil
//@   modifies r.errors
//@   ensures wfResult(r) && len(r.errors) == old(len(r.errors)) + 1 && result == r
//@
//@ func (*Result).Error
//@   props C08 C19
//@   requires wfResult(r)
//@   modifies nothing
//@   ensures (result != nil) <==> len(r.errors) > 0
//@   loop 0 invariant 0 <= i && i < len(r.errors) && len(errorStrings) == len(r.errors)
//@
//@ func (*Result).Failed
//@   props C08
//@   requires wfResult(r)
//@   note assumed magnitudes (uint64 products must not wrap): each count <= 10^15, max-failures-rate <= 1000 percent
//@   requires r.snapshot.SuccessfulIterationDurations.Count <= 1000000000000000
//@   requires r.snapshot.FailedIterationDurations.Count <= 1000000000000000
//@   requires r.snapshot.DroppedIterationCount <= 1000000000000000
//@   requires r.runOptions.MaxFailuresRate <= 1000
//@   modifies nothing
//@   ensures [verdict] result <==> ( len(r.errors) > 0
//@        || (!r.runOptions.IgnoreDropped && r.snapshot.DroppedIterationCount > 0)
//@        || (r.runOptions.MaxFailures == 0 && r.runOptions.MaxFailuresRate == 0 && r.snapshot.FailedIterationDurations.Count > 0)
//@        || (r.runOptions.MaxFailures > 0 && r.snapshot.FailedIterationDurations.Count > r.runOptions.MaxFailures)
//@        || (r.runOptions.MaxFailuresRate > 0 && 100 * r.snapshot.FailedIterationDurations.Count >
//@              r.runOptions.MaxFailuresRate * (r.snapshot.SuccessfulIterationDurations.Count + r.snapshot.FailedIterationDurations.Count + r.snapshot.DroppedIterationCount)) )
