//go:build verif

// Contracts for package run (comment-only; read by /verif/bin/govc, see /verif/DESIGN.md §2.3).
package run

//@ pred wfResult(r *Result) = (isnil(r.errors) <==> len(r.errors) == 0) &&
//@     (forall j int :: 0 <= j && j < len(r.errors) ==> r.errors[j] != nil)
//@
//@ func (*Result).AddError
//@   props C08 C06
//@   requires wfResult(r) && err != nil
//@   modifies r.errors
//@   ensures wfResult(r) && len(r.errors) == old(len(r.errors)) + 1 && result == r
//@
//@ func (*Result).Error
//@   props C08 C19
//@   requires wfResult(r)
//@   modifies nothing
//@   ensures (result != nil) <==> len(r.errors) > 0
//@   loop 0 invariant 0 <= i && i < len(r.errors) && len(errorStrings) == len(r.errors)
//@
//@ func (*Result).Failed
//@   props C08
//@   requires wfResult(r)
//@   note assumed magnitudes (uint64 products must not wrap): each count <= 10^15, max-failures-rate <= 1000 percent
//@   requires r.snapshot.SuccessfulIterationDurations.Count <= 1000000000000000
//@   requires r.snapshot.FailedIterationDurations.Count <= 1000000000000000
//@   requires r.snapshot.DroppedIterationCount <= 1000000000000000
//@   requires r.runOptions.MaxFailuresRate <= 1000
//@   modifies nothing
//@   ensures [verdict] result <==> ( len(r.errors) > 0
//@        || (!r.runOptions.IgnoreDropped && r.snapshot.DroppedIterationCount > 0)
//@        || (r.runOptions.MaxFailures == 0 && r.runOptions.MaxFailuresRate == 0 && r.snapshot.FailedIterationDurations.Count > 0)
//@        || (r.runOptions.MaxFailures > 0 && r.snapshot.FailedIterationDurations.Count > r.runOptions.MaxFailures)
//@        || (r.runOptions.MaxFailuresRate > 0 && 100 * r.snapshot.FailedIterationDurations.Count >
//@              r.runOptions.MaxFailuresRate * (r.snapshot.SuccessfulIterationDurations.Count + r.snapshot.FailedIterationDurations.Count + r.snapshot.DroppedIterationCount)) )
//@
//@ // ---- C19: the summary and progress views are built from the stored snapshot, field by field, with the verdict
//@ // of Failed() and the error of Error(); Iterations is the sum of all three counts, IterationsStarted of the two started ones.
//@ func (*Result).duration
//@   props C19 C05
//@   contended
//@   requires r != nil && held(r.mu)
//@   modifies nothing
//@
//@ func (*Result).Summary
//@   props C19
//@   requires wfResult(r) && r.views != nil
//@   requires r.snapshot.SuccessfulIterationDurations.Count <= 1000000000000000 && r.snapshot.FailedIterationDurations.Count <= 1000000000000000 &&
//@            r.snapshot.DroppedIterationCount <= 1000000000000000 && r.runOptions.MaxFailuresRate <= 1000
//@   modifies nothing
//@   ensures [counts] result != nil && result.data.SuccessfulIterationCount == r.snapshot.SuccessfulIterationDurations.Count &&
//@           result.data.FailedIterationCount == r.snapshot.FailedIterationDurations.Count && result.data.DroppedIterationCount == r.snapshot.DroppedIterationCount
//@   ensures [totals] result.data.Iterations == r.snapshot.SuccessfulIterationDurations.Count + r.snapshot.FailedIterationDurations.Count + r.snapshot.DroppedIterationCount &&
//@           result.data.IterationsStarted == r.snapshot.SuccessfulIterationDurations.Count + r.snapshot.FailedIterationDurations.Count
//@   ensures [durations] deref(result.data.SuccessfulIterationDurations) == deref(r.snapshot.SuccessfulIterationDurations) && deref(result.data.FailedIterationDurations) == deref(r.snapshot.FailedIterationDurations)
//@   ensures [verdict] result.data.Failed <==> ( len(r.errors) > 0
//@        || (!r.runOptions.IgnoreDropped && r.snapshot.DroppedIterationCount > 0)
//@        || (r.runOptions.MaxFailures == 0 && r.runOptions.MaxFailuresRate == 0 && r.snapshot.FailedIterationDurations.Count > 0)
//@        || (r.runOptions.MaxFailures > 0 && r.snapshot.FailedIterationDurations.Count > r.runOptions.MaxFailures)
//@        || (r.runOptions.MaxFailuresRate > 0 && 100 * r.snapshot.FailedIterationDurations.Count >
//@              r.runOptions.MaxFailuresRate * (r.snapshot.SuccessfulIterationDurations.Count + r.snapshot.FailedIterationDurations.Count + r.snapshot.DroppedIterationCount)) )
//@   ensures [error] (result.data.Error != nil) <==> len(r.errors) > 0
//@   ensures [log-path] result.data.LogFilePath == r.LogFilePath && result.view == r.views.result
//@
//@ func (*Result).Progress
//@   props C19 C05
//@   contended
//@   requires r.views != nil
//@   modifies nothing
//@   ensures [counts] result != nil && result.data.SuccessfulIterationCount == r.snapshot.SuccessfulIterationDurations.Count &&
//@           result.data.FailedIterationCount == r.snapshot.FailedIterationDurations.Count && result.data.DroppedIterationCount == r.snapshot.DroppedIterationCount
//@   ensures [period] result.data.Period == r.snapshot.Period && deref(result.data.SuccessfulIterationDurationsForPeriod) == deref(r.snapshot.SuccessfulIterationDurationsForPeriod)
//@   ensures [view] result.view == r.views.progress
//@
//@ // ---- Run.Do: the order of one run (C06 run level, C16 reset-before-setup, C05 skeleton).
//@ // GRstage: 0 start, 1 metrics reset, 2 setup done, 3 iterations running, 4 iterations finished and reporter stopped,
//@ // 5 totals taken. GRsetups / GRteardowns / GRruns count the calls.
//@ frozen {C05,C06,C16} Run.scenarioLogger Run.views Run.output Run.metrics Run.result Run.trigger Run.progressRunner Run.activeScenario Run.pusher
//@ frozen {C05,C06,C16} Result.views Result.progressStats
//@ ghost var GRstage int
//@ ghost var GRsetups int
//@ ghost var GRteardowns int
//@ ghost var GRruns int
//@ ghost var GRsetupFailed bool
//@ ghost var GRsummaries int
//@ // GRwaited: a receive on the pool manager's completion channel completed (every worker has exited);
//@ // GRtimedOut: a timer of at least the completion timeout, started after triggering ended, fired.
//@ ghost var GRwaited bool
//@ ghost var GRtimedOut bool
//@
//@ pred wfRun(r *Run) = r != nil && r.scenarioLogger != nil && r.views != nil && r.output != nil && r.metrics != nil && r.metrics.Iteration != nil && r.metrics.Setup != nil &&
//@     r.result != nil && wfResult(r.result) && r.result.views != nil && r.result.progressStats != nil && r.trigger != nil && r.trigger.Trigger != nil &&
//@     wfRunner(r.progressRunner) && r.activeScenario != nil && r.activeScenario.t != nil && r.activeScenario.Teardown != nil
//@
//@ func (*Run).fail
//@   props C06 C05
//@   requires r != nil && r.result != nil && wfResult(r.result)
//@   modifies r.result.errors
//@   ensures wfResult(r.result) && len(r.result.errors) == old(len(r.result.errors)) + 1
//@
//@ func (*Run).pushMetrics
//@   props C06 C05 C16
//@   requires r != nil && (r.pusher != nil ==> r.output != nil)
//@   modifies nothing
//@
//@ func (*Run).printSummary
//@   props C06 C05 C19
//@   requires r != nil && r.output != nil && r.result != nil && wfResult(r.result) && r.result.views != nil
//@   requires r.result.snapshot.SuccessfulIterationDurations.Count <= 1000000000000000 && r.result.snapshot.FailedIterationDurations.Count <= 1000000000000000 &&
//@            r.result.snapshot.DroppedIterationCount <= 1000000000000000 && r.result.runOptions.MaxFailuresRate <= 1000
//@   modifies nothing
//@
//@ func (*Run).teardownActiveScenario
//@   props C06 C05 C08
//@   requires r != nil && r.output != nil && r.result != nil && wfResult(r.result) && r.result.views != nil && r.activeScenario != nil && wfT(r.activeScenario.t) &&
//@            isBound(r.activeScenario.Teardown, r.activeScenario.t, "teardown")
//@   dyncall Teardown : method testing.(*T).teardown(r.activeScenario.t)
//@   modifies r.result.errors, r.activeScenario.t.tearingDown, r.activeScenario.t.failed, r.activeScenario.t.teardownFailed, r.activeScenario.t.teardownStack, Gmarks, Gcalled, GlastCalled
//@   ensures [error-iff-teardown-failed] len(r.result.errors) == old(len(r.result.errors)) + (r.activeScenario.t.teardownFailed ? 1 : 0) && wfResult(r.result)
//@   ensures [cleanups] forall j int :: 0 <= j && j < old(len(r.activeScenario.t.teardownStack)) ==> Gcalled[j] == old(Gcalled[j]) + 1
//@
//@ func (*Run).reportSetupFailure
//@   props C06 C05 C08
//@   modifies r.result.errors
//@   requires r != nil && r.output != nil && r.result != nil && wfResult(r.result) && r.result.views != nil
//@   ensures [setup-error] result == r.result && len(r.result.errors) == old(len(r.result.errors)) + 1 && wfResult(r.result)
//@
//@ func (*Result).Setup
//@   props C19 C06 C05
//@   requires r != nil && r.views != nil && wfResult(r)
//@   modifies nothing
//@   ensures result != nil
//@
//@ func (*Result).Teardown
//@   props C19 C06 C05
//@   requires r != nil && r.views != nil && wfResult(r)
//@   modifies nothing
//@   ensures result != nil
//@
//@ func (*Result).MaxDurationElapsed
//@   props C19 C06 C05
//@   contended
//@   requires r != nil && r.views != nil && wfResult(r)
//@   modifies nothing
//@   ensures result != nil
//@
//@ func (*Result).Interrupted
//@   props C19 C06 C05
//@   contended
//@   requires r != nil && r.views != nil && wfResult(r)
//@   modifies nothing
//@   ensures result != nil
//@
//@ func (*Result).MaxIterationsReached
//@   props C19 C06 C05
//@   contended
//@   requires r != nil && r.views != nil && wfResult(r)
//@   modifies nothing
//@   ensures result != nil
//@
//@ func (*Result).RecordStarted
//@   props C05 C06
//@   requires r != nil
//@   modifies r.startTime
//@
//@ func (*Result).RecordTestFinished
//@   props C05 C06
//@   requires r != nil
//@   modifies r.TestDuration
//@
//@ func (*Result).HasDroppedIterations
//@   props C05
//@   contended
//@   requires r != nil
//@   modifies nothing
//@   ensures result == (r.snapshot.DroppedIterationCount > 0)
//@
//@ fnspec trigFn(ctx context.Context, output *ui.Output, workers *workers.PoolManager, options options.RunOptions)
//@   modifies allbut(GRstage, GRsetups, GRteardowns, GRruns, GRsetupFailed, GRsummaries)
//@
//@ func (*Run).run
//@   props C05 C06 C09
//@   dyncall triggerCancel : any
//@   requires wfRun(r) && r.options.Concurrency >= 1
//@   dyncall Trigger : trigFn
//@   assert before call context.WithTimeout : [deadline] arg1 == ((r.trigger.Duration > 0 && r.trigger.Duration < r.options.MaxDuration) ? r.trigger.Duration : r.options.MaxDuration) - 10000000
//@   ghost before call dyn:Trigger : assert [one-pool-manager] GRruns == 0 ; GRruns = GRruns + 1
//@   ghost after call dyn:Trigger : assume wfRun(r)
//@   ghost at entry : GRruns = 0 ; GRwaited = false ; GRtimedOut = false
//@   ghost after call recv:(*PoolManager).WaitForCompletion : GRwaited = true
//@   ghost after call recv:time.After : GRtimedOut = GRtimedOut || arg0 >= r.waitForCompletionTimeout
//@   modifies allbut(GRstage, GRsetups, GRteardowns, GRsetupFailed, GRsummaries)
//@   ensures [iterations-finished-or-completion-timeout] GRwaited || GRtimedOut
//@
//@ func (*Run).Do
//@   props C05 C06 C16
//@   spawns (*Run).Do$1
//@   requires wfRun(r) && r.options.Concurrency >= 1 && !closed(r.progressRunner.stopped) && ctx != nil
//@   requires wfT(r.activeScenario.t) && !r.activeScenario.t.tearingDown && !r.activeScenario.t.failed && r.activeScenario.scenario != nil && r.activeScenario.scenario.ScenarioFn != nil &&
//@            r.activeScenario.m != nil && r.activeScenario.m.Setup != nil && isBound(r.activeScenario.Teardown, r.activeScenario.t, "teardown")
//@   requires r.result.snapshot.SuccessfulIterationDurations.Count <= 1000000000000000 && r.result.snapshot.FailedIterationDurations.Count <= 1000000000000000 &&
//@            r.result.snapshot.DroppedIterationCount <= 1000000000000000 && r.result.runOptions.MaxFailuresRate <= 1000
//@   ghost at entry : GRstage = 0 ; GRsetups = 0 ; GRteardowns = 0 ; GRsummaries = 0
//@   ghost after call (*Metrics).Reset : assert [reset-first] GRstage == 0 ; GRstage = 1
//@   ghost before call (*ActiveScenario).Setup : assert [reset-before-setup] GRstage == 1 ; assert [setup-once] GRsetups == 0 ; GRsetups = GRsetups + 1
//@   ghost after call (*ActiveScenario).Setup : GRstage = 2
//@   ghost after call (*ActiveScenario).Failed #0 : GRsetupFailed = ret0
//@   ghost before call (*Run).run : assert [iterations-only-after-successful-setup] GRstage == 2 && GRsetups == 1 && !GRsetupFailed ; GRstage = 3
//@   ghost after call (*Run).run : assume tracks(r.result.progressStats)
//@   ghost after call (*Run).run : assume wfRun(r) && r.progressRunner.cancel != nil && wfT(r.activeScenario.t) && isBound(r.activeScenario.Teardown, r.activeScenario.t, "teardown")
//@   ghost after call (*Run).run : assume r.result.snapshot.SuccessfulIterationDurations.Count <= 1000000000000000 && r.result.snapshot.FailedIterationDurations.Count <= 1000000000000000 && r.result.snapshot.DroppedIterationCount <= 1000000000000000 && r.result.runOptions.MaxFailuresRate <= 1000
//@   ghost before call (*Runner).Stop : assert [reporter-stopped-after-iterations] GRstage == 3 ; GRstage = 4
//@   ghost before call (*Result).GetTotals : assert [totals-after-reporter-stopped] GRstage == 4 && closed(r.progressRunner.stopped) ; GRstage = 5
//@   ghost before call (*Run).teardownActiveScenario : assert [teardown-after-iterations] GRsetups == 1 && GRstage != 3 && GRstage != 4 ; assert [teardown-once] GRteardowns == 0 ; GRteardowns = GRteardowns + 1
//@   ghost before call (*Run).printSummary : assume r.result.snapshot.SuccessfulIterationDurations.Count <= 1000000000000000 && r.result.snapshot.FailedIterationDurations.Count <= 1000000000000000 && r.result.snapshot.DroppedIterationCount <= 1000000000000000 && r.result.runOptions.MaxFailuresRate <= 1000
//@   ghost before call (*Run).printSummary : assert [summary-after-teardown] GRsetups == 1 ==> GRteardowns == 1 ; GRsummaries = GRsummaries + 1
//@   ensures [teardown-ran] GRsetups == 1 && GRteardowns == 1 && GRsummaries == 1
//@   ensures [result] result.0 == r.result && wfResult(r.result)
//@   ensures [complete] !GRsetupFailed ==> GRstage == 5
//@
//@ func (*ScenarioLogger).Close
//@   props C05 C06
//@   requires s != nil
//@   modifies nothing
//@
//@ // C01: the final totals are the lifetime figures of the shared statistics (ghost history counts)
//@ func (*Result).GetTotals
//@   props C01 C05 C19
//@   assert before call (*Stats).Total : [totals-under-the-result-lock] held(r.mu)
//@   requires r != nil && r.progressStats != nil && tracks(r.progressStats)
//@   modifies r.snapshot, r.progressStats.successfulIterationDurations, r.progressStats.failedIterationDurations
//@   ensures [totals] (r.snapshot.SuccessfulIterationDurations.Count == NrecS && r.snapshot.FailedIterationDurations.Count == NrecF &&
//@           r.snapshot.DroppedIterationCount == NrecD && tracks(r.progressStats))
//@
//@ func (*Result).SnapshotProgress
//@   props C01 C05 C19
//@   contended
//@   assert before call (*Stats).Snapshot : [snapshot-under-the-result-lock] held(r.mu)
//@   requires r != nil && r.progressStats != nil && tracks(r.progressStats)
//@   modifies r.snapshot, r.progressStats.successfulIterationDurations, r.progressStats.failedIterationDurations
//@   ensures [snapshot] (r.snapshot.SuccessfulIterationDurations.Count == NrecS && r.snapshot.FailedIterationDurations.Count == NrecF &&
//@           r.snapshot.DroppedIterationCount == NrecD && tracks(r.progressStats))
//@
//@ // ---- construction of a run (C14 flag path, C08 CLI mapping): NewRun rejects an unknown scenario and otherwise
//@ // builds a run whose records are well-formed (what Run.Do requires)
//@ func LogFilePathOrDefault
//@   props C14 C08 C06
//@   trusted computes a file name; no effect on modelled state
//@   modifies nothing
//@
//@ func NewScenarioLogger
//@   props C14 C08 C06
//@   modifies nothing
//@   ensures result != nil && fresh(result) && result.output == output
//@
//@ func (*ScenarioLogger).openLogFile
//@   props C14 C08 C06 C07
//@   trusted file I/O plumbing (os.OpenFile): a file or an error
//@   modifies nothing
//@   ensures (result.1 == nil ==> result.0 != nil) && (result.1 != nil ==> result.0 == nil)
//@
//@ // C07: every iteration handle gets a logger: whatever happens to the log file, Open leaves a logger in place (a nil
//@ // logger would turn the first logged failure into a panic inside the panic handler)
//@ func (*ScenarioLogger).Open
//@   props C14 C08 C06 C07
//@   requires s != nil && s.output != nil
//@   modifies s.Logger, s.logFile
//@   ensures [a-logger-on-every-path] s.output.Logger != nil ==> s.Logger != nil
//@
//@ func NewResult
//@   props C14 C08 C06
//@   modifies nothing
//@   ensures result != nil && fresh(result) && result.views == views && result.progressStats == progressStats && wfResult(result) && len(result.errors) == 0
//@   ensures result.snapshot.SuccessfulIterationDurations.Count == 0 && result.snapshot.FailedIterationDurations.Count == 0 && result.snapshot.DroppedIterationCount == 0 &&
//@           result.runOptions.MaxFailuresRate == runOptions.MaxFailuresRate
//@
//@ func newMetricsPusher
//@   props C14 C08 C06
//@   requires metricsInstance != nil
//@   modifies nothing
//@
//@ func newProgressRunner
//@   props C14 C08 C06 C05
//@   unreachable 1
//@   note block 1 is the error return of raterun.New, which cannot fail for the fixed non-empty schedule list
//@   requires result != nil && output != nil
//@   modifies tickerPeriod, timerDelay, timerStopped, closedchans
//@   ensures [made] retval.1 == nil ==> wfRunner(retval.0) && !closed(retval.0.stopped)
//@   ensures [rejected] retval.1 != nil ==> retval.0 == nil
//@
//@ func NewRun
//@   props C14 C08 C06 C05
//@   requires scenarios != nil && trigger != nil && trigger.Trigger != nil && parentOutput != nil && metricsInstance != nil && metricsInstance.Iteration != nil && metricsInstance.Setup != nil
//@   requires options.Concurrency >= 1
//@   modifies tickerPeriod, timerDelay, timerStopped, closedchans
//@   ensures [built] result.1 == nil ==> wfRun(result.0) && !closed(result.0.progressRunner.stopped) && result.0.options.Concurrency == options.Concurrency &&
//@           wfT(result.0.activeScenario.t) && !result.0.activeScenario.t.tearingDown && !result.0.activeScenario.t.failed && result.0.activeScenario.scenario != nil &&
//@           result.0.activeScenario.m == metricsInstance && isBound(result.0.activeScenario.Teardown, result.0.activeScenario.t, "teardown") &&
//@           result.0.result.snapshot.SuccessfulIterationDurations.Count == 0 && result.0.result.snapshot.FailedIterationDurations.Count == 0 && result.0.result.snapshot.DroppedIterationCount == 0
//@   ensures [rejected] result.1 != nil ==> result.0 == nil
//@
//@ // ---- the run command (C14: the flag path refuses a concurrency below 1 and an unknown scenario before anything
//@ // runs; C08: the command returns an error exactly when the run reported an error or failed)
//@ ghost var G14ignoreCommon bool
//@ ghost var G14err bool
//@ ghost var G14failed bool
//@ ghost var G14ran bool
//@
//@ fnspec builderNew(flags *pflag.FlagSet) (trig *api.Trigger, err error)
//@   modifies G12R, G12E
//@   ensures err == nil ==> trig != nil && trig.Trigger != nil
//@   ensures (err == nil && G14ignoreCommon) ==> trig.Options.Concurrency >= 1
//@
//@ func runCmdExecute$1
//@   props C14 C08
//@   note cobra validates ExactArgs(1) before RunE is called
//@   requires len(args) == 1 && cmd != nil && s != nil && output != nil && metricsInstance != nil && metricsInstance.Iteration != nil && metricsInstance.Setup != nil && t.New != nil
//@   dyncall New : builderNew
//@   ghost at entry : G14ignoreCommon = t.IgnoreCommonFlags ; G14ran = false ; G14err = false ; G14failed = false
//@   assert before call NewRun : [at-least-one-worker] arg0.Concurrency >= 1
//@   ghost after call dyn:New : GFtrig = ret0
//@   ghost after call (*FlagSet).GetDuration : GFdur[arg1] = ret0
//@   ghost after call (*FlagSet).GetInt : GFint[arg1] = ret0
//@   ghost after call (*FlagSet).GetUint64 : GFint[arg1] = ret0
//@   ghost after call (*FlagSet).GetBool : GFbool[arg1] = ret0
//@   assert before call NewRun : [run-options-from-the-config-file] G14ignoreCommon ==> (arg0.Scenario == GFtrig.Options.Scenario && arg0.MaxDuration == GFtrig.Options.MaxDuration && arg0.Concurrency == GFtrig.Options.Concurrency && arg0.MaxIterations == GFtrig.Options.MaxIterations && arg0.MaxFailures == GFtrig.Options.MaxFailures && arg0.MaxFailuresRate == GFtrig.Options.MaxFailuresRate && arg0.IgnoreDropped == GFtrig.Options.IgnoreDropped)
//@   assert before call NewRun : [run-options-from-the-flags] !G14ignoreCommon ==> (arg0.Scenario == args[0] && arg0.MaxDuration == GFdur["max-duration"] && arg0.Concurrency == GFint["concurrency"] && arg0.MaxIterations == GFint["max-iterations"] && arg0.MaxFailures == GFint["max-failures"] && arg0.MaxFailuresRate == GFint["max-failures-rate"] && arg0.IgnoreDropped == GFbool["ignore-dropped"])
//@   assert before call NewRun : [trigger-as-built] arg2 == GFtrig
//@   ghost before call (*Run).Do : assume run.activeScenario.scenario.ScenarioFn != nil && run.activeScenario.m.Setup != nil && arg1 != nil
//@   ghost before call (*Run).Do : assume run.result.runOptions.MaxFailuresRate <= 1000
//@   ghost after call (*Run).Do : G14ran = (ret1 == nil)
//@   ghost after call (*Result).Error #0 : G14err = (ret0 != nil)
//@   ghost before call (*Result).Failed : assume arg0.runOptions.MaxFailuresRate <= 1000 && arg0.snapshot.SuccessfulIterationDurations.Count <= 1000000000000000 && arg0.snapshot.FailedIterationDurations.Count <= 1000000000000000 && arg0.snapshot.DroppedIterationCount <= 1000000000000000
//@   ghost after call (*Result).Failed : G14failed = ret0
//@   ensures [exit-status] G14ran ==> ((retval == nil) <==> (!G14err && !G14failed))
//@   ensures [not-run-or-internal-error-is-an-error] !G14ran ==> retval != nil
