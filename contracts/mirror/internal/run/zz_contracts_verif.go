//go:build verif

// Contracts for package run (comment-only; read by /verif/bin/govc, see /verif/DESIGN.md §2.3).
package run

//@ pred wfResult(r *Result) = (isnil(r.errors) <==> len(r.errors) == 0) &&
//@     (forall j int :: 0 <= j && j < len(r.errors) ==> r.errors[j] != nil)
//@
//@ func (*Result).AddError
//@   props C08 C06
//@   requires wfResult(r) && err != nil
//@   modifies r.errors
//@   ensures wfResult(r) && len(r.errors) == old(len(r.errors)) + 1 && result == r
//@
//@ func (*Result).Error
//@   props C08 C19
//@   requires wfResult(r)
//@   modifies nothing
//@   ensures (result != nil) <==> len(r.errors) > 0
//@   loop 0 invariant 0 <= i && i < len(r.errors) && len(errorStrings) == len(r.errors)
//@
//@ func (*Result).Failed
//@   props C08
//@   requires wfResult(r)
//@   note assumed magnitudes (uint64 products must not wrap): each count <= 10^15, max-failures-rate <= 1000 percent
//@   requires r.snapshot.SuccessfulIterationDurations.Count <= 1000000000000000
//@   requires r.snapshot.FailedIterationDurations.Count <= 1000000000000000
//@   requires r.snapshot.DroppedIterationCount <= 1000000000000000
//@   requires r.runOptions.MaxFailuresRate <= 1000
//@   modifies nothing
//@   ensures [verdict] result <==> ( len(r.errors) > 0
//@        || (!r.runOptions.IgnoreDropped && r.snapshot.DroppedIterationCount > 0)
//@        || (r.runOptions.MaxFailures == 0 && r.runOptions.MaxFailuresRate == 0 && r.snapshot.FailedIterationDurations.Count > 0)
//@        || (r.runOptions.MaxFailures > 0 && r.snapshot.FailedIterationDurations.Count > r.runOptions.MaxFailures)
//@        || (r.runOptions.MaxFailuresRate > 0 && 100 * r.snapshot.FailedIterationDurations.Count >
//@              r.runOptions.MaxFailuresRate * (r.snapshot.SuccessfulIterationDurations.Count + r.snapshot.FailedIterationDurations.Count + r.snapshot.DroppedIterationCount)) )
//@
//@ // ---- C19: the summary and progress views are built from the stored snapshot, field by field, with the verdict
//@ // of Failed() and the error of Error(); Iterations is the sum of all three counts, IterationsStarted of the two started ones.
//@ func (*Result).duration
//@   props C19
//@   modifies nothing
//@   ensures result >= 0 || true
//@
//@ func (*Result).Summary
//@   props C19
//@   requires wfResult(r) && r.views != nil
//@   requires r.snapshot.SuccessfulIterationDurations.Count <= 1000000000000000 && r.snapshot.FailedIterationDurations.Count <= 1000000000000000 &&
//@            r.snapshot.DroppedIterationCount <= 1000000000000000 && r.runOptions.MaxFailuresRate <= 1000
//@   modifies nothing
//@   ensures [counts] result != nil && result.data.SuccessfulIterationCount == r.snapshot.SuccessfulIterationDurations.Count &&
//@           result.data.FailedIterationCount == r.snapshot.FailedIterationDurations.Count && result.data.DroppedIterationCount == r.snapshot.DroppedIterationCount
//@   ensures [totals] result.data.Iterations == r.snapshot.SuccessfulIterationDurations.Count + r.snapshot.FailedIterationDurations.Count + r.snapshot.DroppedIterationCount &&
//@           result.data.IterationsStarted == r.snapshot.SuccessfulIterationDurations.Count + r.snapshot.FailedIterationDurations.Count
//@   ensures [durations] deref(result.data.SuccessfulIterationDurations) == deref(r.snapshot.SuccessfulIterationDurations) && deref(result.data.FailedIterationDurations) == deref(r.snapshot.FailedIterationDurations)
//@   ensures [verdict] result.data.Failed <==> ( len(r.errors) > 0
//@        || (!r.runOptions.IgnoreDropped && r.snapshot.DroppedIterationCount > 0)
//@        || (r.runOptions.MaxFailures == 0 && r.runOptions.MaxFailuresRate == 0 && r.snapshot.FailedIterationDurations.Count > 0)
//@        || (r.runOptions.MaxFailures > 0 && r.snapshot.FailedIterationDurations.Count > r.runOptions.MaxFailures)
//@        || (r.runOptions.MaxFailuresRate > 0 && 100 * r.snapshot.FailedIterationDurations.Count >
//@              r.runOptions.MaxFailuresRate * (r.snapshot.SuccessfulIterationDurations.Count + r.snapshot.FailedIterationDurations.Count + r.snapshot.DroppedIterationCount)) )
//@   ensures [error] (result.data.Error != nil) <==> len(r.errors) > 0
//@   ensures [log-path] result.data.LogFilePath == r.LogFilePath && result.view == r.views.result
//@
//@ func (*Result).Progress
//@   props C19
//@   requires r.views != nil
//@   modifies nothing
//@   ensures [counts] result != nil && result.data.SuccessfulIterationCount == r.snapshot.SuccessfulIterationDurations.Count &&
//@           result.data.FailedIterationCount == r.snapshot.FailedIterationDurations.Count && result.data.DroppedIterationCount == r.snapshot.DroppedIterationCount
//@   ensures [period] result.data.Period == r.snapshot.Period && deref(result.data.SuccessfulIterationDurationsForPeriod) == deref(r.snapshot.SuccessfulIterationDurationsForPeriod)
//@   ensures [view] result.view == r.views.progress
