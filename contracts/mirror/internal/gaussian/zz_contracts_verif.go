//go:build verif

// Contracts for package gaussian (comment-only; read by /verif/bin/govc, see /verif/DESIGN.md §2.3).
// C14 only needs crash-freedom here: floats are abstract (fp-abstract: any value, NaN and infinities included).
package gaussian

//@ func NewDistribution
//@   props C14
//@   fp-abstract
//@   modifies nothing
//@   ensures [built] result.1 == nil ==> result.0 != nil && fresh(result.0)
//@   ensures [rejected] result.1 != nil ==> result.0 == nil
//@
//@ func (*Distribution).Exponent
//@   props C14
//@   fp-abstract
//@   requires d != nil
//@   modifies nothing
//@
//@ func (*Distribution).PDF
//@   props C14
//@   fp-abstract
//@   requires d != nil
//@   modifies nothing
//@
//@ func (*Distribution).CDF
//@   props C14
//@   fp-abstract
//@   requires d != nil
//@   modifies nothing
