//go:build verif

// Contracts for package gaussian (comment-only; read by /verif/bin/govc, see /verif/DESIGN.md §2.3).
// C14 only needs crash-freedom here: floats are abstract (fp-abstract: any value, NaN and infinities included).
package gaussian

//@ // the comparison of the standard deviation is exact in the rounded-real model (no arithmetic before it); NaN is
//@ // outside that model (a NaN standard deviation is accepted by the code and yields NaN rates, which are harmless
//@ // since the distribution fix 4ff9836 hands non-positive rates through)
//@ func NewDistribution
//@   props C14
//@   fp-inexact
//@   modifies nothing
//@   ensures [rejects-non-positive-deviation] standardDeviation <= 0.0 ==> result.1 != nil
//@   ensures [built] result.1 == nil ==> result.0 != nil && fresh(result.0) && result.0.standardDeviation > 0.0
//@   ensures [rejected] result.1 != nil ==> result.0 == nil
//@
//@ func (*Distribution).Exponent
//@   props C14 C11
//@   fp-inexact
//@   requires d != nil
//@   modifies nothing
//@   ensures [non-negative] result >= 0.0
//@
//@ func (*Distribution).PDF
//@   props C14 C11
//@   fp-inexact
//@   requires d != nil
//@   modifies nothing
//@   ensures [non-negative] d.standardDeviation >= 0.000000001 ==> result >= 0.0
//@
//@ func (*Distribution).CDF
//@   props C14
//@   fp-abstract
//@   requires d != nil
//@   modifies nothing
