//go:build verif

// Contracts for package xtime (comment-only; read by /verif/bin/govc, see /verif/DESIGN.md §2.3).
package xtime

//@ ghost var Gclock int
//@
//@ func NanoTime
//@   props C17 C01 C06 C07 C16
//@   trusted runtime.nanotime (linkname, no Go body) is a monotone clock whose successive readings strictly increase
//@   modifies Gclock
//@   ensures result > old(Gclock) && Gclock == result
