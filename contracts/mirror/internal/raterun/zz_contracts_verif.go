//go:build verif

// Contracts for package raterun (comment-only; read by /verif/bin/govc, see /verif/DESIGN.md §2.3).
package raterun

//@ // ---- C18: the periodic runner fires only while running and is quiescent after Stop.
//@ // Ghost protocol: the channel `stopped` is closed only by the runner goroutine, as its last action; every
//@ // invocation of the run function happens while it is still open. Stop returns only after a receive on it.
//@ closesonly {C18} Runner.stopped
//@ ghost var G18calls int
//@ ghost var G18ticks int
//@ ghost var G18spawned int
//@
//@ pred wfSchedules(s *schedules) = s != nil && len(s.list) >= 1 && s.ticker != nil && s.nextScheduleTimer != nil &&
//@     -1 <= s.currentScheduleIndex && s.currentScheduleIndex < len(s.list) &&
//@     (forall j int :: 0 <= j && j < len(s.list) ==> s.list[j].Frequency > 0)
//@ pred wfRunner(r *Runner) = r != nil && wfSchedules(r.schedules) && r.runFunction != nil && r.stopped != nil && r.restart != nil
//@
//@ fnspec runFn(frequency time.Duration)
//@   modifies nothing
//@
//@ func New
//@   props C18
//@   modifies tickerPeriod, timerDelay, timerStopped, closedchans
//@   requires fn != nil && (forall j int :: 0 <= j && j < len(schedules) ==> schedules[j].Frequency > 0)
//@   ensures [empty] len(schedules) == 0 ==> result.0 == nil && result.1 != nil
//@   ensures [made] len(schedules) > 0 ==> result.1 == nil && wfRunner(result.0) && !closed(result.0.stopped) && result.0.schedules.currentScheduleIndex == -1
//@
//@ func newSchedules
//@   props C18
//@   modifies tickerPeriod, timerDelay, timerStopped
//@   requires len(list) >= 1 && (forall j int :: 0 <= j && j < len(list) ==> list[j].Frequency > 0)
//@   ensures wfSchedules(result) && result.currentScheduleIndex == -1 && result.list == list
//@   ensures timerDelay(result.nextScheduleTimer) == list[0].StartDelay
//@
//@ func (*schedules).start
//@   props C18
//@   requires wfSchedules(s) && index >= 0
//@   modifies s.ticker, s.currentScheduleIndex, s.nextScheduleTimer, timerStopped, tickerPeriod, timerDelay
//@   ensures [beyond] index >= len(s.list) ==> s.currentScheduleIndex == old(s.currentScheduleIndex) && s.ticker == old(s.ticker) && s.nextScheduleTimer == old(s.nextScheduleTimer)
//@   ensures [switched] index < len(s.list) ==> s.currentScheduleIndex == index && fresh(s.ticker) && tickerPeriod(s.ticker) == s.list[index].Frequency &&
//@           timerStopped(old(s.ticker)) && !timerStopped(s.ticker)
//@   ensures [next-timer] (index < len(s.list) && index + 1 < len(s.list)) ==> fresh(s.nextScheduleTimer) && timerDelay(s.nextScheduleTimer) == s.list[index + 1].StartDelay && timerStopped(old(s.nextScheduleTimer))
//@   ensures [last] (index < len(s.list) && index + 1 >= len(s.list)) ==> s.nextScheduleTimer == old(s.nextScheduleTimer) && timerStopped(s.nextScheduleTimer)
//@   ensures [wf] wfSchedules(s)
//@
//@ func (*schedules).startFirst
//@   props C18
//@   requires wfSchedules(s)
//@   modifies s.ticker, s.currentScheduleIndex, s.nextScheduleTimer, timerStopped, tickerPeriod, timerDelay
//@   ensures [first] s.currentScheduleIndex == 0 && tickerPeriod(s.ticker) == s.list[0].Frequency && wfSchedules(s)
//@
//@ func (*schedules).startNext
//@   props C18
//@   requires wfSchedules(s)
//@   modifies s.ticker, s.currentScheduleIndex, s.nextScheduleTimer, timerStopped, tickerPeriod, timerDelay
//@   ensures [next] old(s.currentScheduleIndex) + 1 < len(s.list) ==> s.currentScheduleIndex == old(s.currentScheduleIndex) + 1 && tickerPeriod(s.ticker) == s.list[s.currentScheduleIndex].Frequency
//@   ensures [stay] old(s.currentScheduleIndex) + 1 >= len(s.list) ==> s.currentScheduleIndex == old(s.currentScheduleIndex)
//@   ensures [wf] wfSchedules(s)
//@
//@ func (*schedules).currentFrequency
//@   props C18
//@   requires wfSchedules(s) && s.currentScheduleIndex >= 0
//@   modifies nothing
//@   ensures result == s.list[s.currentScheduleIndex].Frequency
//@
//@ func (*schedules).stop
//@   props C18
//@   requires wfSchedules(s)
//@   modifies timerStopped
//@   ensures timerStopped(s.ticker) && timerStopped(s.nextScheduleTimer)
//@
//@ func (*schedules).timeUntilNextSchedule
//@   props C18
//@   requires wfSchedules(s)
//@   modifies nothing
//@
//@ func (*schedules).currentScheduleTicker
//@   props C18
//@   requires wfSchedules(s)
//@   modifies nothing
//@
//@ func (*Runner).Start
//@   props C18 C05
//@   requires wfRunner(r) && !closed(r.stopped) && ctx != nil
//@   ghost at entry : G18spawned = 0
//@   ghost before call (*Runner).Start$1 : G18spawned = G18spawned + 1
//@   modifies r.cancel, G18spawned
//@   ensures [owner] !closed(r.stopped)
//@   ensures [spawned] G18spawned == 1 && r.cancel != nil
//@
//@ func (*Runner).Start$1
//@   props C18 C05
//@   thread-root
//@   requires wfRunner(r) && !closed(r.stopped) && schedulesCtx != nil
//@   dyncall runFunction : runFn
//@   ghost at entry : G18calls = 0 ; G18ticks = 0 ; G18lastArm = -1
//@   ghost after call select:arm2 : G18ticks = G18ticks + 1 ; G18lastArm = 2
//@   ghost after call select:arm0 : G18lastArm = 0
//@   ghost after call select:arm1 : G18lastArm = 1
//@   ghost before call (*schedules).currentFrequency : assume r.schedules.currentScheduleIndex >= 0
//@   ghost before call dyn:runFunction : assert [while-open] !closed(r.stopped) ; assert [frequency] arg0 == r.schedules.list[r.schedules.currentScheduleIndex].Frequency ; G18calls = G18calls + 1
//@   loop 0 invariant wfRunner(r) && !closed(r.stopped) && G18calls == G18ticks
//@   loop 0 invariant [a-received-restart-goes-back-to-the-first-schedule] G18lastArm == 0 ==> (r.schedules.currentScheduleIndex == 0 && tickerPeriod(r.schedules.ticker) == r.schedules.list[0].Frequency)
//@   ensures [closed-last] closed(r.stopped) && G18calls == G18ticks
//@   ensures [timers-stopped] timerStopped(r.schedules.ticker) && timerStopped(r.schedules.nextScheduleTimer)
//@
//@ func (*Runner).Stop
//@   props C18 C05
//@   requires r != nil && r.cancel != nil && r.stopped != nil
//@   dyncall cancel : cancelFn
//@   modifies nothing
//@   ensures [quiescent] closed(r.stopped)
//@
//@ fnspec cancelFn()
//@   modifies nothing
//@
//@ // A Restart is a request that cannot be lost on the sender's side: every call performs one unconditional send on
//@ // the restart channel (a send demoted to an arm of a select with a default may silently do nothing). The runner
//@ // goroutine answers every restart it receives by going back to the first schedule before it waits again (stated over
//@ // the state at the loop head, so it does not matter which helper does it).
//@ ghost var G18restartReq int
//@ ghost var G18lastArm int
//@
//@ func (*Runner).Restart
//@   props C18
//@   requires r != nil
//@   ghost after call send:restart : G18restartReq = G18restartReq + 1
//@   modifies G18restartReq
//@   ensures [every-restart-is-requested] G18restartReq == old(G18restartReq) + 1
