//go:build verif

// Contracts for package api (comment-only; read by /verif/bin/govc, see /verif/DESIGN.md §2.3).
package api

//@ // ---- C14 (flag level): the value read for each command-line flag, by flag name, as the trigger builders' New
//@ // closures read them from the flag set; GFrates = what the trigger's Calculate* function returned.
//@ ghost var GFflt map[string]real
//@ ghost var GFdur map[string]int
//@ ghost var GFstr map[string]string
//@ ghost var GFrates *Rates
//@ ghost var GFint map[string]int
//@ ghost var GFbool map[string]bool
//@ ghost var GFtrig *Trigger
//@
//@ // ---- C12: distributing a rate over sub-ticks
//@ ghost var G12R int
//@ ghost var G12E int
//@ ghost var G12evals int
//@
//@ // G12claim: proof-mode constant. 1 = the C12 claim (the underlying rate is non-negative, as the property's
//@ // quantifier says); 0 = nothing is assumed about the underlying rate (C14: it must still not crash).
//@ ghost var G12claim int
//@
//@ fnspec nonnegRate(now time.Time) (r int)
//@   modifies nothing
//@   ensures G12claim == 1 ==> r >= 0
//@
//@ fnspec anyRand(n int) (r int)
//@   requires n > 0
//@   modifies nothing
//@   ensures r >= 0
//@
//@ func withRandomDistribution$1
//@   props C12 C14
//@   dyncall rateFn : nonnegRate
//@   dyncall randFn : anyRand
//@   inv rateFn != nil && randFn != nil
//@   inv tickSteps >= 1 && 0 <= remainingSteps && remainingSteps <= tickSteps
//@   inv G12claim == 1 ==> (remainingRate >= 0 && G12E >= 0)
//@   inv G12claim == 1 ==> (remainingSteps > 0 ==> G12E + remainingRate == G12R)
//@   inv G12claim == 1 ==> (remainingSteps == 0 ==> G12E == G12R)
//@   ghost after call dyn:rateFn #0 : G12R = ret0 ; G12E = 0 ; G12evals = G12evals + 1
//@   ghost at exit : G12E = G12E + result
//@   modifies remainingSteps, remainingRate, G12R, G12E, G12evals
//@   ensures [nonneg] result >= 0
//@   ensures [sum] G12E == (old(remainingSteps) == 0 ? 0 : old(G12E)) + result
//@   ensures [cycle] remainingSteps == (old(remainingSteps) == 0 ? tickSteps : old(remainingSteps)) - 1
//@   ensures [once] G12evals == old(G12evals) + (old(remainingSteps) == 0 ? 1 : 0)
//@   ensures [samecycle] old(remainingSteps) != 0 ==> G12R == old(G12R)
//@
//@ func withRandomDistribution
//@   props C12
//@   modifies G12R, G12E
//@   requires rateFn != nil && randFn != nil
//@   ghost before call Milliseconds #0 : G12R = 0 ; G12E = 0
//@   ensures [passthrough] iterationDuration <= 100000000 ==> result.0 == iterationDuration && result.1 == rateFn
//@   ensures [subtick] iterationDuration > 100000000 ==> result.0 == 100000000 && result.1 != nil
//@
//@ // ---- C09: tick cadence. One evaluation immediately, then exactly one per value received from the ticker;
//@ // each evaluation's value is that tick's request to the pool, unchanged.
//@ ghost var G9evals int
//@ ghost var G9trig int
//@ ghost var G9ticks int
//@ ghost var G9last int
//@ ghost var G9tickerMade bool
//@
//@ fnspec anyRate(now time.Time) (r int)
//@   modifies nothing
//@
//@ func NewIterationWorker$1
//@   props C09 C04 C14
//@   requires rate != nil && iterationDuration > 0 && opts.Concurrency >= 1 && wfManager(workers)
//@   dyncall rate : anyRate
//@   ghost at entry : G9evals = 0 ; G9trig = 0 ; G9ticks = 0 ; G9tickerMade = false
//@   ghost after call select:arm1 : G9ticks = G9ticks + 1
//@   ghost after call dyn:rate : G9evals = G9evals + 1 ; G9last = ret0
//@   ghost before call (*PoolManager).NewTriggerPool : assert [concurrency] arg1 == opts.Concurrency && arg0 == workers
//@   ghost before call (*TriggerPool).Trigger : assert [unchanged] arg2 == G9last ; assert [one-per-evaluation] G9trig == G9evals - 1 ; G9trig = G9trig + 1
//@   ghost before call time.NewTicker : assert [ticker-after-first-evaluation] G9evals == 1 && G9trig == 1 ; assert [period] arg0 == iterationDuration ; G9tickerMade = true
//@   loop 0 invariant G9evals == 1 + G9ticks && G9trig == G9evals && G9tickerMade && wfTriggerPool(pool) && workerCtx != nil
//@   ensures [cadence] G9evals == 1 + G9ticks && G9trig == G9evals && G9tickerMade
//@
//@ // A ticker of period d has delivered at most floor(e/d) values by time e after its creation (trusted time.Ticker
//@ // contract), and it is created after the first evaluation: so by elapsed time e at most 1 + floor(e/d) evaluations.
//@ lemma cadenceBound
//@   props C09
//@   vars e int, d int, ticks int, evals int
//@   hyp d > 0 && e >= 0 && ticks >= 0 && ticks * d <= e && evals == 1 + ticks
//@   goal evals <= 1 + e / d
//@
//@ func NewIterationWorker
//@   props C09 C14
//@   modifies nothing
//@   requires rate != nil && iterationDuration > 0
//@   ensures result != nil
//@
//@ // ---- C13: jitter varies each tick but preserves the long-run total (rounded-real float model).
//@ // Ghost constants fixed when the closure is created: GJj bounds the relative variation (jitter/100 plus float
//@ // slack), GJrmax bounds the underlying rate, GJB is the fixed bound on the carried balance:
//@ // GJB*(1-GJj) >= GJj*GJrmax + 1.
//@ ghost var GJin int
//@ ghost var GJout int
//@ ghost var GJrmax int
//@ ghost var GJreq real
//@ ghost var GJj real
//@ ghost var GJB real
//@ // GJclaim: proof-mode constant. 1 = the C13 claim is being made (jitter percentage in range, bounded underlying
//@ // rate); 0 = no assumption about the jitter argument (C14: any value the user passes must still yield a usable function).
//@ ghost var GJclaim int
//@ ghost var GJevals int
//@ pred jitterConsts(m real) = 0.000001 <= m && m <= 99.0 && GJj == (m / 100.0) * (1.0 + 1.0 / 1048576.0) &&
//@     0 <= GJrmax && GJrmax <= 17592186044416 && GJB * (1.0 - GJj) >= GJj * real(GJrmax) + 1.0 && 1.0 <= GJB && GJB <= 2251799813685248.0
//@
//@ fnspec boundedRate(now time.Time) (r int)
//@   modifies nothing
//@   ensures 0 <= r && r <= GJrmax
//@
//@ func WithJitter$1
//@   props C13 C09
//@   dyncall rate : boundedRate
//@   requires GJclaim == 1
//@   inv rate != nil
//@   inv GJclaim == 1 ==> jitterConsts(multiple)
//@   inv GJclaim == 1 ==> (balance == real(GJin - GJout) && abs(balance) <= GJB)
//@   ghost after call dyn:rate : GJin = GJin + ret0 ; GJreq = real(ret0) + balance ; GJevals = GJevals + 1
//@   assert before call math.Round : [factor] abs(variationFactor - 1.0) <= GJj
//@   ghost before call math.Round : rewrite [req-exact] requestedRate = GJin - GJout
//@   assert before call math.Round : [req-is] requestedRate == GJreq && abs(requestedRate) <= GJB + real(GJrmax)
//@   assert before call math.Round : [proposed] abs(proposed - requestedRate) <= GJj * abs(requestedRate) + 1.0 / 1048576.0
//@   ghost at exit : GJout = GJout + result
//@   modifies balance, GJin, GJout, GJreq, GJevals
//@   ensures {C09,C13} [the-underlying-rate-is-evaluated-once-per-call] GJevals == old(GJevals) + 1
//@   ensures [nonneg] result >= 0
//@   ensures [single-value] GJreq >= 0.0 ==> abs(real(result) - GJreq) <= GJj * GJreq + 0.5 + 1.0 / 1048576.0
//@   ensures [clamped] GJreq < 0.0 ==> result == 0
//@   ensures [carried] balance == GJreq - real(result)
//@
//@ func WithJitter
//@   props C13 C10 C14
//@   modifies nothing
//@   requires rate != nil
//@   requires GJclaim == 1 ==> (multiple == 0.0 || (jitterConsts(multiple) && GJin == GJout))
//@   ensures [identity] multiple == 0.0 ==> result == rate
//@   ensures [jittered] multiple != 0.0 ==> result != nil
//@
//@ // the carried balance bounds the drift of the running totals for every prefix
//@ lemma jitterDrift
//@   props C13
//@   vars sin int, sout int, bal real, B real
//@   hyp bal == real(sin - sout) && abs(bal) <= B
//@   goal abs(real(sout - sin)) <= B
//@
//@ // ---- C12, regular distribution: what the contracts decide is the cycle structure (the underlying rate is
//@ // evaluated exactly once per cycle of tickSteps calls, the values are non-negative) and the independence of
//@ // cycles: every cycle starts from an empty accumulator, so the sum of a cycle depends on that cycle's rate and
//@ // tickSteps only. The per-cycle exactness of the float accumulation itself is outside the float model (see
//@ // DESIGN.md) and is covered by the bounded check registered below, not by proof.
//@ func withRegularDistribution$1
//@   props C12 C14
//@   fp-inexact
//@   bounded {C12} regular_distribution : the real closure, every cycle length N in 2..300 (thorough: 2..600) x every rate in 0..1000 (thorough: 0..3000) plus ten rates up to 10^9, two consecutive cycles each: per cycle the values are non-negative, sum exactly to the cycle's rate, differ by at most 1, one evaluation of the underlying rate
//@   dyncall rateFn : nonnegRate
//@   inv rateFn != nil
//@   inv tickSteps >= 1 && 0 <= remainingSteps && remainingSteps < tickSteps
//@   inv G12claim == 1 ==> rate >= 0
//@   ghost after call dyn:rateFn #0 : G12R = ret0 ; G12evals = G12evals + 1
//@   assert before call math.Ceil : {C12} [cycle-starts-empty] (G12claim == 1 && remainingSteps == tickSteps && rate <= 4503599627370496) ==> abs(arg0 - real(rate) / real(tickSteps) * 10000000.0) <= (real(rate) / real(tickSteps) + 1.0) / 1048576.0
//@   modifies remainingSteps, rate, accRate, G12R, G12evals
//@   ensures [nonneg] G12claim == 1 ==> result >= 0
//@   ensures [cycle] remainingSteps == (old(remainingSteps) == 0 ? tickSteps : old(remainingSteps)) - 1
//@   ensures [once] G12evals == old(G12evals) + (old(remainingSteps) == 0 ? 1 : 0)
//@   ensures [samecycle] old(remainingSteps) != 0 ==> rate == old(rate)
//@   ensures [latched] old(remainingSteps) == 0 ==> rate == G12R
//@
//@ // ---- C14 / C12: distribution selection
//@ func withRegularDistribution
//@   props C12 C14
//@   modifies nothing
//@   requires rateFn != nil
//@   ensures [passthrough] iterationDuration <= 100000000 ==> result.0 == iterationDuration && result.1 == rateFn
//@   ensures [subtick] iterationDuration > 100000000 ==> result.0 == 100000000 && result.1 != nil
//@
//@ func NewDistribution
//@   props C12 C14
//@   modifies G12R, G12E
//@   requires rateFn != nil
//@   ensures [positive] result.2 == nil ==> result.0 > 0 && result.1 != nil
//@   ensures [nonpositive] iterationDuration <= 0 ==> result.2 != nil
//@   ensures [none] iterationDuration > 0 && distributionTypeArg == "none" ==> result.2 == nil && result.0 == iterationDuration && result.1 == rateFn
//@   ensures [known] iterationDuration > 0 && (distributionTypeArg == "regular" || distributionTypeArg == "random") ==> result.2 == nil && result.1 != nil &&
//@           result.0 == (iterationDuration <= 100000000 ? iterationDuration : 100000000)
//@   ensures [unknown] (distributionTypeArg != "none" && distributionTypeArg != "regular" && distributionTypeArg != "random") ==> result.2 != nil
