//go:build verif

// Contracts for package api (comment-only; read by /verif/bin/govc, see /verif/DESIGN.md §2.3).
package api

//@ // ---- C12: distributing a rate over sub-ticks
//@ ghost var G12R int
//@ ghost var G12E int
//@ ghost var G12evals int
//@
//@ fnspec nonnegRate(now time.Time) (r int)
//@   modifies nothing
//@   ensures r >= 0
//@
//@ fnspec anyRand(n int) (r int)
//@   requires n > 0
//@   modifies nothing
//@   ensures r >= 0
//@
//@ func withRandomDistribution$1
//@   props C12
//@   dyncall rateFn : nonnegRate
//@   dyncall randFn : anyRand
//@   inv rateFn != nil && randFn != nil
//@   inv tickSteps >= 1 && 0 <= remainingSteps && remainingSteps <= tickSteps && remainingRate >= 0 && G12E >= 0
//@   inv remainingSteps > 0 ==> G12E + remainingRate == G12R
//@   inv remainingSteps == 0 ==> G12E == G12R
//@   ghost after call dyn:rateFn #0 : G12R = ret0 ; G12E = 0 ; G12evals = G12evals + 1
//@   ghost at exit : G12E = G12E + result
//@   modifies remainingSteps, remainingRate, G12R, G12E, G12evals
//@   ensures [nonneg] result >= 0
//@   ensures [sum] G12E == (old(remainingSteps) == 0 ? 0 : old(G12E)) + result
//@   ensures [cycle] remainingSteps == (old(remainingSteps) == 0 ? tickSteps : old(remainingSteps)) - 1
//@   ensures [once] G12evals == old(G12evals) + (old(remainingSteps) == 0 ? 1 : 0)
//@   ensures [samecycle] old(remainingSteps) != 0 ==> G12R == old(G12R)
//@
//@ func withRandomDistribution
//@   props C12
//@   requires rateFn != nil && randFn != nil
//@   ghost before call Milliseconds #0 : G12R = 0 ; G12E = 0
//@   ensures [passthrough] iterationDuration <= 100000000 ==> result.0 == iterationDuration && result.1 == rateFn
//@   ensures [subtick] iterationDuration > 100000000 ==> result.0 == 100000000 && result.1 != nil
