//go:build verif

// Contracts for package file (comment-only; read by /verif/bin/govc, see /verif/DESIGN.md §2.3).
package file

//@ // ---- C14 / C15: every field a stage omits is taken from the default section; a stage that passes validation has
//@ // every field its mode dereferences.
//@ func (*Stage).validateCommonFieldsOfStage
//@   props C14 C15
//@   requires s != nil
//@   modifies s.Duration, s.Mode
//@   ensures [usable] result.1 == nil ==> result.0 == s && s.Duration != nil && s.Mode != nil
//@   ensures [inherit] result.1 == nil ==> s.Duration == (old(s.Duration) != nil ? old(s.Duration) : defaults.Duration) && s.Mode == (old(s.Mode) != nil ? old(s.Mode) : defaults.Mode)
//@   ensures [rejected] result.1 != nil ==> result.0 == nil
//@   ensures [rejects-only-missing] result.1 != nil <==> ((old(s.Duration) == nil && defaults.Duration == nil) || (old(s.Mode) == nil && defaults.Mode == nil))
//@
//@ func (*Stage).validateConstantStage
//@   props C14 C15
//@   requires s != nil && defaults.Jitter != nil
//@   modifies s.Rate, s.Distribution, s.Jitter, s.Parameters
//@   ensures [usable] result.1 == nil ==> result.0 == s && s.Rate != nil && s.Distribution != nil && s.Jitter != nil && s.Parameters != nil
//@   ensures [inherit] result.1 == nil ==> s.Rate == (old(s.Rate) != nil ? old(s.Rate) : defaults.Rate) && s.Distribution == (old(s.Distribution) != nil ? old(s.Distribution) : defaults.Distribution)
//@   ensures [inherit-optional] result.1 == nil ==> (old(s.Jitter) != nil ==> s.Jitter == old(s.Jitter)) && (old(s.Jitter) == nil && defaults.Jitter != nil ==> s.Jitter == defaults.Jitter) &&
//@           (old(s.Parameters) != nil ==> s.Parameters == old(s.Parameters)) && (old(s.Parameters) == nil && defaults.Parameters != nil ==> s.Parameters == defaults.Parameters)
//@   ensures [rejected] result.1 != nil ==> result.0 == nil
//@
//@ func (*Stage).validateRampStage
//@   props C14 C15
//@   requires s != nil && defaults.Jitter != nil
//@   modifies s.StartRate, s.EndRate, s.Distribution, s.Jitter, s.Parameters
//@   ensures [usable] result.1 == nil ==> result.0 == s && s.StartRate != nil && s.EndRate != nil && s.Distribution != nil && s.Jitter != nil && s.Parameters != nil
//@   ensures [inherit] result.1 == nil ==> s.StartRate == (old(s.StartRate) != nil ? old(s.StartRate) : defaults.StartRate) && s.EndRate == (old(s.EndRate) != nil ? old(s.EndRate) : defaults.EndRate) &&
//@           s.Distribution == (old(s.Distribution) != nil ? old(s.Distribution) : defaults.Distribution)
//@   ensures [rejected] result.1 != nil ==> result.0 == nil
//@
//@ func (*Stage).validateStagedStage
//@   props C14 C15
//@   requires s != nil && defaults.Jitter != nil
//@   modifies s.Stages, s.IterationFrequency, s.Distribution, s.Jitter, s.Parameters
//@   ensures [usable] result.1 == nil ==> result.0 == s && s.Stages != nil && s.IterationFrequency != nil && s.Distribution != nil && s.Jitter != nil && s.Parameters != nil
//@   ensures [inherit] result.1 == nil ==> s.Stages == (old(s.Stages) != nil ? old(s.Stages) : defaults.Stages) &&
//@           s.IterationFrequency == (old(s.IterationFrequency) != nil ? old(s.IterationFrequency) : defaults.IterationFrequency) &&
//@           s.Distribution == (old(s.Distribution) != nil ? old(s.Distribution) : defaults.Distribution)
//@   ensures [rejected] result.1 != nil ==> result.0 == nil
//@
//@ func (*Stage).validateGaussianStage
//@   props C14 C15
//@   requires s != nil && defaults.Jitter != nil
//@   modifies s.Volume, s.Repeat, s.IterationFrequency, s.Peak, s.Weights, s.StandardDeviation, s.Distribution, s.Jitter, s.Parameters
//@   ensures [usable] result.1 == nil ==> result.0 == s && s.Volume != nil && s.Repeat != nil && s.IterationFrequency != nil && s.Peak != nil && s.Weights != nil &&
//@           s.StandardDeviation != nil && s.Distribution != nil && s.Jitter != nil && s.Parameters != nil
//@   ensures [inherit] result.1 == nil ==> s.Volume == (old(s.Volume) != nil ? old(s.Volume) : defaults.Volume) && s.Repeat == (old(s.Repeat) != nil ? old(s.Repeat) : defaults.Repeat) &&
//@           s.IterationFrequency == (old(s.IterationFrequency) != nil ? old(s.IterationFrequency) : defaults.IterationFrequency) &&
//@           s.Peak == (old(s.Peak) != nil ? old(s.Peak) : defaults.Peak) && s.Weights == (old(s.Weights) != nil ? old(s.Weights) : defaults.Weights) &&
//@           s.StandardDeviation == (old(s.StandardDeviation) != nil ? old(s.StandardDeviation) : defaults.StandardDeviation) &&
//@           s.Distribution == (old(s.Distribution) != nil ? old(s.Distribution) : defaults.Distribution)
//@   ensures [rejected] result.1 != nil ==> result.0 == nil
//@
//@ func (*Stage).validateUsersStage
//@   props C14 C15
//@   requires s != nil
//@   modifies s.Concurrency, s.Parameters
//@   ensures [usable] result.1 == nil ==> result.0 == s && s.Concurrency != nil && deref(s.Concurrency) >= 1 && s.Parameters != nil
//@   ensures [inherit] result.1 == nil ==> s.Concurrency == (old(s.Concurrency) != nil ? old(s.Concurrency) : defaults.Concurrency)
//@   ensures [rejected] result.1 != nil ==> result.0 == nil
//@
//@ // a runnable stage either drives a fixed set of users (at least one) or ticks at a positive interval with a rate function
//@ pred runnableStageOK(r *runnableStage) = r != nil && (r.UsersConcurrency == 0 ==> (r.IterationDuration > 0 && r.Rate != nil)) && r.UsersConcurrency >= 0
//@
//@ func (*Stage).parseStage
//@   props C14 C15
//@   requires GJclaim == 0
//@   requires s != nil && s.Mode != nil && s.Duration != nil && defaults.Jitter != nil
//@   ensures [runnable] result.1 == nil ==> runnableStageOK(result.0) && result.0.StageDuration == old(deref(s.Duration))
//@   ensures [rejected] result.1 != nil ==> result.0 == nil
//@   modifies s.Rate, s.StartRate, s.EndRate, s.Distribution, s.Weights, s.Stages, s.Concurrency, s.Jitter, s.Volume, s.IterationFrequency, s.Repeat, s.Peak, s.StandardDeviation, s.Parameters
//@
//@ func (*ConfigFile).validateCommonFields
//@   props C14 C15
//@   requires c != nil
//@   modifies c.Limits.MaxFailures, c.Limits.MaxFailuresRate, c.Default.Concurrency, c.Default.Jitter
//@   ensures [usable] result.1 == nil ==> result.0 == c && c.Scenario != nil && c.Limits.MaxDuration != nil && c.Limits.Concurrency != nil && c.Limits.MaxIterations != nil &&
//@           c.Limits.IgnoreDropped != nil && len(c.Stages) > 0 && c.Limits.MaxFailures != nil && c.Limits.MaxFailuresRate != nil && c.Default.Jitter != nil && c.Default.Concurrency != nil
//@   ensures [workers] result.1 == nil ==> deref(c.Limits.Concurrency) >= 1
//@   ensures [default-jitter] result.1 == nil && old(c.Default.Jitter) == nil ==> deref(c.Default.Jitter) == 0.0
//@   ensures [kept] result.1 == nil ==> c.Limits.Concurrency == old(c.Limits.Concurrency) && (old(c.Default.Jitter) != nil ==> c.Default.Jitter == old(c.Default.Jitter)) && (old(c.Default.Concurrency) != nil ==> c.Default.Concurrency == old(c.Default.Concurrency))
//@   ensures [rejected] result.1 != nil ==> result.0 == nil
//@
//@ pred stageValueOK(r runnableStage) = (r.UsersConcurrency == 0 ==> (r.IterationDuration > 0 && r.Rate != nil)) && r.UsersConcurrency >= 0
//@
//@ func ParseConfigFile
//@   props C14 C15
//@   requires GJclaim == 0
//@   loop 0 invariant -1 <= rangeindex && (forall j int :: 0 <= j && j < len(stages) ==> stageValueOK(stages[j]))
//@   loop 0 invariant validatedConfigFile != nil && validatedConfigFile.Default.Jitter != nil
//@   ensures [runnable] result.1 == nil ==> result.0 != nil && result.0.Concurrency >= 1 && (forall j int :: 0 <= j && j < len(result.0.Stages) ==> stageValueOK(result.0.Stages[j]))
//@   ensures [rejected] result.1 != nil ==> result.0 == nil
