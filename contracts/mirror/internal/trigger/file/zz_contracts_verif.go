//go:build verif

// Contracts for package file (comment-only; read by /verif/bin/govc, see /verif/DESIGN.md §2.3).
package file

//@ // ---- C14 / C15: every field a stage omits is taken from the default section; a stage that passes validation has
//@ // every field its mode dereferences.
//@ func (*Stage).validateCommonFieldsOfStage
//@   props C14 C15 C13
//@   requires s != nil
//@   modifies s.Duration, s.Mode
//@   ensures [usable] result.1 == nil ==> result.0 == s && s.Duration != nil && s.Mode != nil
//@   ensures [inherit] result.1 == nil ==> s.Duration == (old(s.Duration) != nil ? old(s.Duration) : defaults.Duration) && s.Mode == (old(s.Mode) != nil ? old(s.Mode) : defaults.Mode)
//@   ensures [rejected] result.1 != nil ==> result.0 == nil
//@   ensures [rejects-only-missing] result.1 != nil <==> ((old(s.Duration) == nil && defaults.Duration == nil) || (old(s.Mode) == nil && defaults.Mode == nil))
//@
//@ func (*Stage).validateConstantStage
//@   props C14 C15 C13
//@   requires s != nil && defaults.Jitter != nil
//@   modifies s.Rate, s.Distribution, s.Jitter, s.Parameters
//@   ensures [usable] result.1 == nil ==> result.0 == s && s.Rate != nil && s.Distribution != nil && s.Jitter != nil && s.Parameters != nil
//@   ensures [inherit] result.1 == nil ==> s.Rate == (old(s.Rate) != nil ? old(s.Rate) : defaults.Rate) && s.Distribution == (old(s.Distribution) != nil ? old(s.Distribution) : defaults.Distribution)
//@   ensures [inherit-optional] result.1 == nil ==> (old(s.Jitter) != nil ==> s.Jitter == old(s.Jitter)) && (old(s.Jitter) == nil ==> s.Jitter == defaults.Jitter) &&
//@           (old(s.Parameters) != nil ==> s.Parameters == old(s.Parameters)) && (old(s.Parameters) == nil && defaults.Parameters != nil ==> s.Parameters == defaults.Parameters) &&
//@           (old(s.Parameters) == nil && defaults.Parameters == nil ==> fresh(s.Parameters) && (forall k string :: !indom(deref(s.Parameters), k)))
//@   ensures [rejected] result.1 != nil ==> result.0 == nil
//@
//@ func (*Stage).validateRampStage
//@   props C14 C15 C13
//@   requires s != nil && defaults.Jitter != nil
//@   modifies s.StartRate, s.EndRate, s.Distribution, s.Jitter, s.Parameters
//@   ensures [usable] result.1 == nil ==> result.0 == s && s.StartRate != nil && s.EndRate != nil && s.Distribution != nil && s.Jitter != nil && s.Parameters != nil
//@   ensures [inherit] result.1 == nil ==> s.StartRate == (old(s.StartRate) != nil ? old(s.StartRate) : defaults.StartRate) && s.EndRate == (old(s.EndRate) != nil ? old(s.EndRate) : defaults.EndRate) &&
//@           s.Distribution == (old(s.Distribution) != nil ? old(s.Distribution) : defaults.Distribution)
//@   ensures [inherit-optional] result.1 == nil ==> (old(s.Jitter) != nil ==> s.Jitter == old(s.Jitter)) && (old(s.Jitter) == nil ==> s.Jitter == defaults.Jitter) &&
//@           (old(s.Parameters) != nil ==> s.Parameters == old(s.Parameters)) && (old(s.Parameters) == nil && defaults.Parameters != nil ==> s.Parameters == defaults.Parameters) &&
//@           (old(s.Parameters) == nil && defaults.Parameters == nil ==> fresh(s.Parameters) && (forall k string :: !indom(deref(s.Parameters), k)))
//@   ensures [rejected] result.1 != nil ==> result.0 == nil
//@
//@ func (*Stage).validateStagedStage
//@   props C14 C15 C13
//@   requires s != nil && defaults.Jitter != nil
//@   modifies s.Stages, s.IterationFrequency, s.Distribution, s.Jitter, s.Parameters
//@   ensures [usable] result.1 == nil ==> result.0 == s && s.Stages != nil && s.IterationFrequency != nil && s.Distribution != nil && s.Jitter != nil && s.Parameters != nil
//@   ensures [inherit] result.1 == nil ==> s.Stages == (old(s.Stages) != nil ? old(s.Stages) : defaults.Stages) &&
//@           s.IterationFrequency == (old(s.IterationFrequency) != nil ? old(s.IterationFrequency) : defaults.IterationFrequency) &&
//@           s.Distribution == (old(s.Distribution) != nil ? old(s.Distribution) : defaults.Distribution)
//@   ensures [inherit-optional] result.1 == nil ==> (old(s.Jitter) != nil ==> s.Jitter == old(s.Jitter)) && (old(s.Jitter) == nil ==> s.Jitter == defaults.Jitter) &&
//@           (old(s.Parameters) != nil ==> s.Parameters == old(s.Parameters)) && (old(s.Parameters) == nil && defaults.Parameters != nil ==> s.Parameters == defaults.Parameters) &&
//@           (old(s.Parameters) == nil && defaults.Parameters == nil ==> fresh(s.Parameters) && (forall k string :: !indom(deref(s.Parameters), k)))
//@   ensures [rejected] result.1 != nil ==> result.0 == nil
//@
//@ func (*Stage).validateGaussianStage
//@   props C14 C15 C13 C11
//@   requires s != nil && defaults.Jitter != nil
//@   modifies s.Volume, s.Repeat, s.IterationFrequency, s.Peak, s.Weights, s.StandardDeviation, s.Distribution, s.Jitter, s.Parameters
//@   ensures [usable] result.1 == nil ==> result.0 == s && s.Volume != nil && s.Repeat != nil && s.IterationFrequency != nil && s.Peak != nil && s.Weights != nil &&
//@           s.StandardDeviation != nil && s.Distribution != nil && s.Jitter != nil && s.Parameters != nil
//@   ensures [inherit] result.1 == nil ==> s.Volume == (old(s.Volume) != nil ? old(s.Volume) : defaults.Volume) && s.Repeat == (old(s.Repeat) != nil ? old(s.Repeat) : defaults.Repeat) &&
//@           s.IterationFrequency == (old(s.IterationFrequency) != nil ? old(s.IterationFrequency) : defaults.IterationFrequency) &&
//@           s.Peak == (old(s.Peak) != nil ? old(s.Peak) : defaults.Peak) && s.Weights == (old(s.Weights) != nil ? old(s.Weights) : defaults.Weights) &&
//@           s.StandardDeviation == (old(s.StandardDeviation) != nil ? old(s.StandardDeviation) : defaults.StandardDeviation) &&
//@           s.Distribution == (old(s.Distribution) != nil ? old(s.Distribution) : defaults.Distribution)
//@   ensures [inherit-optional] result.1 == nil ==> (old(s.Jitter) != nil ==> s.Jitter == old(s.Jitter)) && (old(s.Jitter) == nil ==> s.Jitter == defaults.Jitter) &&
//@           (old(s.Parameters) != nil ==> s.Parameters == old(s.Parameters)) && (old(s.Parameters) == nil && defaults.Parameters != nil ==> s.Parameters == defaults.Parameters) &&
//@           (old(s.Parameters) == nil && defaults.Parameters == nil ==> fresh(s.Parameters) && (forall k string :: !indom(deref(s.Parameters), k)))
//@   ensures [rejected] result.1 != nil ==> result.0 == nil
//@
//@ func (*Stage).validateUsersStage
//@   props C14 C15
//@   requires s != nil
//@   modifies s.Concurrency, s.Parameters
//@   ensures [usable] result.1 == nil ==> result.0 == s && s.Concurrency != nil && deref(s.Concurrency) >= 1 && s.Parameters != nil
//@   ensures [inherit] result.1 == nil ==> s.Concurrency == (old(s.Concurrency) != nil ? old(s.Concurrency) : defaults.Concurrency)
//@   ensures [inherit-optional] result.1 == nil ==> (old(s.Parameters) != nil ==> s.Parameters == old(s.Parameters)) && (old(s.Parameters) == nil && defaults.Parameters != nil ==> s.Parameters == defaults.Parameters) &&
//@           (old(s.Parameters) == nil && defaults.Parameters == nil ==> fresh(s.Parameters) && (forall k string :: !indom(deref(s.Parameters), k)))
//@   ensures [rejected] result.1 != nil ==> result.0 == nil
//@
//@ // a runnable stage either drives a fixed set of users (at least one) or ticks at a positive interval with a rate function
//@ pred runnableStageOK(r *runnableStage) = r != nil && (r.UsersConcurrency == 0 ==> (r.IterationDuration > 0 && r.Rate != nil)) && r.UsersConcurrency >= 0
//@
//@ func (*Stage).parseStage
//@   props C14 C15
//@   requires GJclaim == 0
//@   requires s != nil && s.Mode != nil && s.Duration != nil && defaults.Jitter != nil
//@   ensures [runnable] result.1 == nil ==> runnableStageOK(result.0) && result.0.StageDuration == old(deref(s.Duration))
//@   ensures {C15} [params] result.1 == nil ==> result.0.Params == deref(s.Parameters) && (old(s.Parameters) != nil ==> s.Parameters == old(s.Parameters)) &&
//@           (old(s.Parameters) == nil && defaults.Parameters != nil ==> s.Parameters == defaults.Parameters) && (old(s.Parameters) == nil && defaults.Parameters == nil ==> (forall k string :: !indom(result.0.Params, k)))
//@   ensures {C15} [users] result.1 == nil && old(deref(s.Mode)) == "users" ==> result.0.UsersConcurrency == deref(s.Concurrency) && (old(s.Concurrency) != nil ==> s.Concurrency == old(s.Concurrency)) && (old(s.Concurrency) == nil ==> s.Concurrency == defaults.Concurrency)
//@   ensures [rejected] result.1 != nil ==> result.0 == nil
//@   modifies G12R, G12E, s.Rate, s.StartRate, s.EndRate, s.Distribution, s.Weights, s.Stages, s.Concurrency, s.Jitter, s.Volume, s.IterationFrequency, s.Repeat, s.Peak, s.StandardDeviation, s.Parameters
//@
//@ func (*ConfigFile).validateCommonFields
//@   props C14 C15
//@   requires c != nil
//@   modifies c.Limits.MaxFailures, c.Limits.MaxFailuresRate, c.Default.Concurrency, c.Default.Jitter
//@   ensures [usable] result.1 == nil ==> result.0 == c && c.Scenario != nil && c.Limits.MaxDuration != nil && c.Limits.Concurrency != nil && c.Limits.MaxIterations != nil &&
//@           c.Limits.IgnoreDropped != nil && len(c.Stages) > 0 && c.Limits.MaxFailures != nil && c.Limits.MaxFailuresRate != nil && c.Default.Jitter != nil && c.Default.Concurrency != nil
//@   ensures [workers] result.1 == nil ==> deref(c.Limits.Concurrency) >= 1
//@   ensures [default-jitter] result.1 == nil && old(c.Default.Jitter) == nil ==> deref(c.Default.Jitter) == 0.0
//@   ensures [kept] result.1 == nil ==> c.Limits.Concurrency == old(c.Limits.Concurrency) && (old(c.Default.Jitter) != nil ==> c.Default.Jitter == old(c.Default.Jitter)) && (old(c.Default.Concurrency) != nil ==> c.Default.Concurrency == old(c.Default.Concurrency))
//@   ensures [rejected] result.1 != nil ==> result.0 == nil
//@
//@ pred stageValueOK(r runnableStage) = (r.UsersConcurrency == 0 ==> (r.IterationDuration > 0 && r.Rate != nil)) && r.UsersConcurrency >= 0
//@
//@ // ---- C15: the plan keeps exactly the unfinished stages, in file order. Ghost: G15cum = prefix sums of the stage
//@ // durations (after defaults), G15pos[i] = position of input stage i in the plan (-1: skipped), G15src = its inverse.
//@ ghost var G15cum map[int]int
//@ ghost var G15pos map[int]int
//@ ghost var G15src map[int]int
//@ pred keepCond(c *ConfigFile, now time.Time, i int) = c.Schedule.StageStart == nil || deref(c.Schedule.StageStart) + G15cum[i + 1] > now
//@
//@ func ParseConfigFile
//@   props C14 C15
//@   requires GJclaim == 0
//@   ghost at entry : G15cum[0] = 0
//@   ghost after call validateCommonFieldsOfStage : G15cum[idx + 1] = G15cum[idx] + deref(ret0.Duration) ; G15pos[idx] = -1
//@   ghost before call parseStage : G15pos[idx] = len(stages) ; G15src[len(stages)] = idx
//@   loop 0 invariant -1 <= rangeindex && rangeindex < len(validatedConfigFile.Stages) && (forall j int :: 0 <= j && j < len(stages) ==> stageValueOK(stages[j]))
//@   loop 0 invariant validatedConfigFile != nil && validatedConfigFile.Default.Jitter != nil
//@   loop 0 invariant {C15} [cum] G15cum[0] == 0 && stagesTotalDuration == G15cum[rangeindex + 1]
//@   loop 0 invariant {C15} [kept-iff] forall i int :: 0 <= i && i <= rangeindex ==> ((G15pos[i] >= 0) <==> keepCond(validatedConfigFile, now, i))
//@   loop 0 invariant {C15} [pos-src] forall i int :: 0 <= i && i <= rangeindex && G15pos[i] >= 0 ==> G15pos[i] < len(stages) && G15src[G15pos[i]] == i
//@   loop 0 invariant {C15} [src-pos] forall a int :: 0 <= a && a < len(stages) ==> 0 <= G15src[a] && G15src[a] <= rangeindex && G15pos[G15src[a]] == a
//@   loop 0 invariant {C15} [sorted] forall a int, b int :: 0 <= a && a < b && b < len(stages) ==> G15src[a] < G15src[b]
//@   loop 0 invariant {C15} [duration] forall a int :: 0 <= a && a < len(stages) ==> stages[a].StageDuration == G15cum[G15src[a] + 1] - G15cum[G15src[a]]
//@   ensures [runnable] result.1 == nil ==> result.0 != nil && result.0.Concurrency >= 1 && (forall j int :: 0 <= j && j < len(result.0.Stages) ==> stageValueOK(result.0.Stages[j]))
//@   ensures [rejected] result.1 != nil ==> result.0 == nil
//@   ensures {C15} [only-unfinished] result.1 == nil ==> (forall a int :: 0 <= a && a < len(result.0.Stages) ==> 0 <= G15src[a] && G15src[a] < len(validatedConfigFile.Stages) &&
//@           keepCond(validatedConfigFile, now, G15src[a]) && result.0.Stages[a].StageDuration == G15cum[G15src[a] + 1] - G15cum[G15src[a]])
//@   ensures {C15} [in-order] result.1 == nil ==> (forall a int, b int :: 0 <= a && a < b && b < len(result.0.Stages) ==> G15src[a] < G15src[b])
//@   ensures {C15} [all-unfinished] result.1 == nil ==> (forall i int :: 0 <= i && i < len(validatedConfigFile.Stages) && keepCond(validatedConfigFile, now, i) ==>
//@           0 <= G15pos[i] && G15pos[i] < len(result.0.Stages) && G15src[G15pos[i]] == i)
//@   ensures {C15} [total] result.1 == nil ==> result.0.stagesTotalDuration == G15cum[len(validatedConfigFile.Stages)]
//@   ensures {C15} [limits] result.1 == nil ==> result.0.Scenario == deref(validatedConfigFile.Scenario) && result.0.MaxDuration == deref(validatedConfigFile.Limits.MaxDuration) &&
//@           result.0.Concurrency == deref(validatedConfigFile.Limits.Concurrency) && result.0.MaxIterations == deref(validatedConfigFile.Limits.MaxIterations) &&
//@           result.0.maxFailures == deref(validatedConfigFile.Limits.MaxFailures) && result.0.maxFailuresRate == deref(validatedConfigFile.Limits.MaxFailuresRate) &&
//@           result.0.IgnoreDropped == deref(validatedConfigFile.Limits.IgnoreDropped)
//@
//@ // ---- C15 (run time): stages run strictly one after another in plan order; a stage's parameters are exported before
//@ // its trigger goroutine starts and removed only after that goroutine has finished, on every way out of runStage.
//@ fnspec workTriggerer(ctx context.Context, output *ui.Output, workers *workers.PoolManager, options options.RunOptions)
//@   modifies all
//@
//@ fnspec cancelFn()
//@   modifies nothing
//@
//@ func setEnvs
//@   props C15
//@   requires output != nil
//@   modifies env, envset
//@   loop 0 invariant forall k string :: visited(k) ==> indom(envs, k)
//@   loop 0 invariant forall k string :: visited(k) ==> (setenvOK(k, envs[k]) ==> (envset[k] && env[k] == envs[k]))
//@   loop 0 invariant forall k string :: !visited(k) ==> (envset[k] == old(envset[k]) && env[k] == old(env[k]))
//@   ensures [exported] forall k string :: indom(envs, k) && setenvOK(k, envs[k]) ==> (envset[k] && env[k] == envs[k])
//@   ensures [only-its-keys] forall k string :: !indom(envs, k) ==> (envset[k] == old(envset[k]) && env[k] == old(env[k]))
//@
//@ func unsetEnvs
//@   props C15
//@   requires output != nil
//@   modifies envset
//@   loop 0 invariant forall k string :: visited(k) ==> indom(envs, k)
//@   loop 0 invariant forall k string :: visited(k) ==> !envset[k]
//@   loop 0 invariant forall k string :: !visited(k) ==> envset[k] == old(envset[k])
//@   ensures [removed] forall k string :: indom(envs, k) ==> !envset[k]
//@   ensures [only-its-keys] forall k string :: !indom(envs, k) ==> envset[k] == old(envset[k])
//@
//@ func runStage$1
//@   props C15 C14
//@   requires stageValueOK(stage) && wfManager(workers) && options.Concurrency >= 1 && stageDone != nil && !closed(stageDone)
//@   dyncall doWork : workTriggerer
//@   ensures [done] closed(stageDone)
//@   onpanic [done-on-panic] closed(stageDone)
//@
//@ // C05 (no goroutine of the run remains): runStage returns only after its stage goroutine has finished: the deferred
//@ // unsetEnvs runs on every way out, and [trigger-finished-first] demands the stage goroutine's done-channel closed there.
//@ func runStage
//@   props C15 C14 C05
//@   requires stageValueOK(stage) && wfManager(workers) && options.Concurrency >= 1 && output != nil
//@   dyncall stageCancel : cancelFn
//@   modifies env, envset, closedchans
//@   assert before call file.runStage$1 : [exported-before-trigger] forall k string :: indom(stage.Params, k) && setenvOK(k, stage.Params[k]) ==> (envset[k] && env[k] == stage.Params[k])
//@   assert before call unsetEnvs : [trigger-finished-first] closed(stageDone)
//@   ensures [none-remain] forall k string :: indom(stage.Params, k) ==> !envset[k]
//@   onpanic [none-remain-on-panic] forall k string :: indom(stage.Params, k) ==> !envset[k]
//@
//@ // C15 (limits mapped one-to-one onto the run options; total duration = sum of all stage durations): the builder's
//@ // New closure hands the parsed plan on unchanged.
//@ ghost var G15plan *RunnableStages
//@ func readFile
//@   props C15 C14
//@   trusted file I/O plumbing (os.Open, io.ReadAll, Close): returns the content or an error, touches no modelled state
//@   requires output != nil
//@   modifies nothing
//@   ensures [content-or-error] (result.1 == nil ==> result.0 != nil) && (result.1 != nil ==> result.0 == nil)
//@
//@ func newDryRun
//@   props C15 C14
//@   modifies nothing
//@   ensures result != nil
//@
//@ func Rate$1
//@   props C15 C14
//@   requires flags != nil && output != nil && GJclaim == 0 && G12claim == 0
//@   ghost after call ParseConfigFile : G15plan = ret0
//@   ensures [limits-one-to-one] result.1 == nil ==> result.0 != nil && result.0.Options.Scenario == G15plan.Scenario && result.0.Options.MaxDuration == G15plan.MaxDuration &&
//@           result.0.Options.Concurrency == G15plan.Concurrency && result.0.Options.MaxIterations == G15plan.MaxIterations && result.0.Options.MaxFailures == G15plan.maxFailures &&
//@           result.0.Options.MaxFailuresRate == G15plan.maxFailuresRate && result.0.Options.IgnoreDropped == G15plan.IgnoreDropped
//@   ensures [total-duration] result.1 == nil ==> result.0.Duration == G15plan.stagesTotalDuration && result.0.Trigger != nil && result.0.DryRun != nil
//@   ensures [rejected] result.1 != nil ==> result.0 == nil
//@
//@ ghost var G15ran int
//@ func newStagesWorker$1
//@   props C15
//@   requires output != nil && wfManager(workers) && options.Concurrency >= 1 && (forall j int :: 0 <= j && j < len(stages) ==> stageValueOK(stages[j]))
//@   ghost at entry : G15ran = 0
//@   ghost before call runStage : assert [in-order] arg3 == stages[G15ran] ; G15ran = G15ran + 1
//@   loop 0 invariant -1 <= rangeindex && rangeindex < len(stages) && G15ran == rangeindex + 1
//@   ensures [prefix] 0 <= G15ran && G15ran <= len(stages)
//@
//@ func newStagesWorker
//@   props C15
//@   modifies nothing
//@   ensures result != nil
