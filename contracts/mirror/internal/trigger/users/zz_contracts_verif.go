//go:build verif

// Contracts for package users (comment-only; read by /verif/bin/govc, see /verif/DESIGN.md §2.3).
package users

//@ func NewWorker$1
//@   props C14 C04
//@   requires concurrency >= 1 && wfManager(workers)
//@   ghost before call (*PoolManager).NewContinuousPool : assert [concurrency] arg1 == concurrency && arg0 == workers
//@
//@ func NewWorker
//@   props C14 C04
//@   modifies nothing
//@   ensures result != nil
