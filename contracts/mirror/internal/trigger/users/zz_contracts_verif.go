//go:build verif

// Contracts for package users (comment-only; read by /verif/bin/govc, see /verif/DESIGN.md §2.3).
package users

//@ func NewWorker$1
//@   props C14 C04
//@   requires concurrency >= 1 && wfManager(workers)
//@   ghost before call (*PoolManager).NewContinuousPool : assert [concurrency] arg1 == concurrency && arg0 == workers
//@
//@ // the users trigger starts as many users as --concurrency says
//@ func Rate$1$1
//@   props C04 C14
//@   dyncall doWork : any
//@   requires options.Concurrency >= 1 && wfManager(workers)
//@   assert before call NewWorker : [as-many-users-as-configured] arg0 == options.Concurrency
//@
//@ func NewWorker
//@   props C14 C04
//@   modifies nothing
//@   ensures result != nil
