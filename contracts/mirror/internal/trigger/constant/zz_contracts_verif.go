//go:build verif

// Contracts for package constant (comment-only; read by /verif/bin/govc, see /verif/DESIGN.md §2.3).
package constant

//@ // ---- C14 (flag level): the constant trigger is built from the flags as the user gave them
//@ func Rate$1
//@   props C14
//@   requires params != nil && GJclaim == 0 && G12claim == 0
//@   ghost after call (*FlagSet).GetFloat64 : GFflt[arg1] = ret0
//@   ghost after call (*FlagSet).GetString : GFstr[arg1] = ret0
//@   assert before call CalculateConstantRate : [flags-as-given] arg0 == GFflt["jitter"] && arg1 == GFstr["rate"] && arg2 == GFstr["distribution"]
//@   ensures [runnable] result.1 == nil ==> result.0 != nil && result.0.Trigger != nil && result.0.DryRun != nil
//@   ensures [rejected] result.1 != nil ==> result.0 == nil
//@
//@ func CalculateConstantRate$1
//@   props C14
//@   modifies nothing
//@   ensures result == rate
//@
//@ func CalculateConstantRate
//@   props C14
//@   requires GJclaim == 1 ==> (jitterArg == 0.0 || (jitterConsts(jitterArg) && GJin == GJout))
//@   modifies G12R, G12E
//@   ensures [runnable] result.1 == nil ==> result.0 != nil && result.0.Rate != nil && result.0.IterationDuration > 0
//@   ensures [rejected] result.1 != nil ==> result.0 == nil
