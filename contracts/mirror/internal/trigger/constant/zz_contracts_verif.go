//go:build verif

// Contracts for package constant (comment-only; read by /verif/bin/govc, see /verif/DESIGN.md §2.3).
package constant

//@ func CalculateConstantRate$1
//@   props C14
//@   modifies nothing
//@   ensures result == rate
//@
//@ func CalculateConstantRate
//@   props C14
//@   requires GJclaim == 1 ==> (jitterArg == 0.0 || (jitterConsts(jitterArg) && GJin == GJout))
//@   modifies G12R, G12E
//@   ensures [runnable] result.1 == nil ==> result.0 != nil && result.0.Rate != nil && result.0.IterationDuration > 0
//@   ensures [rejected] result.1 != nil ==> result.0 == nil
