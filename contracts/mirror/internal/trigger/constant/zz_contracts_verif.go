//go:build verif

// Contracts for package constant (comment-only; read by /verif/bin/govc, see /verif/DESIGN.md §2.3).
package constant

//@ // ---- C14 (flag level): the constant trigger is built from the flags as the user gave them
//@ func Rate$1
//@   props C14
//@   requires params != nil && GJclaim == 0 && G12claim == 0
//@   ghost after call (*FlagSet).GetFloat64 : GFflt[arg1] = ret0
//@   ghost after call (*FlagSet).GetString : GFstr[arg1] = ret0
//@   assert before call CalculateConstantRate : [flags-as-given] arg0 == GFflt["jitter"] && arg1 == GFstr["rate"] && arg2 == GFstr["distribution"]
//@   ensures [runnable] result.1 == nil ==> result.0 != nil && result.0.Trigger != nil && result.0.DryRun != nil
//@   ensures [rejected] result.1 != nil ==> result.0 == nil
//@
//@ func CalculateConstantRate$1
//@   props C14
//@   modifies nothing
//@   ensures result == rate
//@
//@ // C12/C13 (wiring): the jitter is applied to the underlying rate and the result is what gets distributed over the
//@ // sub-ticks (jittering each sub-tick separately would break the per-cycle sum and the evenness); the distributed
//@ // function is what the trigger uses
//@ ghost var GCjittered int
//@ ghost var GCdistributed int
//@ func CalculateConstantRate
//@   props C14 C12 C13
//@   ghost at entry : GCjittered = 0 ; GCdistributed = 0
//@   ghost after call WithJitter : GCjittered = ret0
//@   assert before call NewDistribution : {C12,C13} [the-jittered-rate-is-what-is-distributed] arg2 == GCjittered
//@   ghost after call NewDistribution : GCdistributed = ret1
//@   ensures {C12,C13} [the-distributed-rate-is-what-the-trigger-uses] result.1 == nil ==> result.0.Rate == GCdistributed
//@   requires GJclaim == 1 ==> (jitterArg == 0.0 || (jitterConsts(jitterArg) && GJin == GJout))
//@   modifies G12R, G12E, GCjittered, GCdistributed
//@   ensures [runnable] result.1 == nil ==> result.0 != nil && result.0.Rate != nil && result.0.IterationDuration > 0
//@   ensures [rejected] result.1 != nil ==> result.0 == nil
