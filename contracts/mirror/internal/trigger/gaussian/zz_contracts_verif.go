//go:build verif

// Contracts for package gaussian (comment-only; read by /verif/bin/govc, see /verif/DESIGN.md §2.3).
package gaussian

//@ // ---- C14 (flag level): the gaussian trigger is built from the flags as the user gave them; --peak-rate, when given,
//@ // replaces --volume by the volume computed from it
//@ ghost var GFvol real
//@ ghost var GFvolFromPeak bool
//@ func Rate$1
//@   props C14 C11
//@   fp-abstract
//@   requires flags != nil && output != nil && GJclaim == 0 && G12claim == 0
//@   ghost at entry : GFvolFromPeak = false
//@   ghost after call (*FlagSet).GetFloat64 : GFflt[arg1] = ret0
//@   ghost after call (*FlagSet).GetDuration : GFdur[arg1] = ret0
//@   ghost after call (*FlagSet).GetString : GFstr[arg1] = ret0
//@   assert before call CalculateVolume : [peak-rate-as-given] arg0 == GFstr["peak-rate"] && arg1 == GFdur["peak"] && arg2 == GFdur["standard-deviation"] && GFstr["peak-rate"] != ""
//@   ghost after call CalculateVolume : GFvol = ret0 ; GFvolFromPeak = true
//@   assert before call CalculateGaussianRate : [flags-as-given] arg1 == GFflt["jitter"] && arg2 == GFdur["repeat"] && arg3 == GFdur["iteration-frequency"] && arg4 == GFdur["peak"] && arg5 == GFdur["standard-deviation"] &&
//@          arg6 == GFstr["weights"] && arg7 == GFstr["distribution"] && (GFstr["peak-rate"] == "" ==> arg0 == GFflt["volume"]) && (GFstr["peak-rate"] != "" ==> GFvolFromPeak && arg0 == GFvol)
//@   ensures [runnable] result.1 == nil ==> result.0 != nil && result.0.Trigger != nil && result.0.DryRun != nil
//@   ensures [rejected] result.1 != nil ==> result.0 == nil
//@
//@ // C14 (rates mean what they spell): N/<duration> is N per that duration, so the per-second figure is N divided by the
//@ // duration in seconds (not by a whole number of seconds). Only the structure is pinned down (the unit is converted with
//@ // Duration.Seconds, i.e. as a fractional number of seconds): the quantitative statement is a non-linear float
//@ // obligation that the solvers decide too slowly to be claimed.
//@ ghost var GPcount int
//@ ghost var GPunit int
//@ func parseRateToTPS
//@   props C14 C11
//@   fp-inexact
//@   ghost at entry : GPcount = 0 ; GPunit = 0
//@   ghost after call rate.ParseRate : GPcount = ret0 ; GPunit = ret1
//@   modifies GPcount, GPunit
//@   assert before call (Duration).Seconds : [the-unit-is-taken-in-seconds] arg0 == GPunit
//@   ensures [rejected] result.1 != nil ==> result.0 == 0.0 - 1.0
//@
//@ func NewCalculator
//@   props C14
//@   fp-abstract
//@   modifies nothing
//@   loop 0 invariant -1 <= rangeindex && rangeindex < len(weights)
//@   ensures [built] result.1 == nil ==> result.0 != nil && fresh(result.0) && result.0.dist != nil
//@   ensures [rejected] result.1 != nil ==> result.0 == nil
//@
//@ func CalculateGaussianRate
//@   props C14
//@   fp-abstract
//@   requires GJclaim == 1 ==> (jitter == 0.0 || (jitterConsts(jitter) && GJin == GJout))
//@   modifies G12R, G12E
//@   loop 0 invariant -1 <= rangeindex && rangeindex < len(weights)
//@   ensures [runnable] result.1 == nil ==> result.0 != nil && result.0.Rate != nil && result.0.IterationDuration > 0
//@   ensures [rejected] result.1 != nil ==> result.0 == nil
//@
//@ // ---- C11 (mechanism clauses; the volume integral itself is outside the technique, see DESIGN §10.2):
//@ // every tick evaluates the density at the offset inside the current repeat window, scales it by the weight of
//@ // that window (index = number of whole windows since the start of the weight cycle), adds the carried remainder,
//@ // requests the integer part and carries the fractional part to the next tick.
//@ ghost var G11rwr real
//@ ghost var G11acc int
//@ ghost var G11steps int
//@ pred wfCalc11(c *Calculator) = c != nil && c.dist != nil && c.repeatWindow > 0 && c.repeatWindow <= 4503599627370496 &&
//@     c.repeatWindow * len(c.weights) <= 4503599627370496 && c.averageWeight != 0.0
//@
//@ // NewCalculator, second pass (variant @mech, rounded-real floats instead of the abstract floats of the C14 pass): the
//@ // calculator is built from the arguments as given: the curve is centred on the configured peak with the configured
//@ // deviation, the weights are stored unchanged, no weights means weight 1, and a single weight is its own mean (so
//@ // that For scales the window by weight/mean = 1).
//@ func NewCalculator @mech
//@   props C11
//@   fp-inexact
//@   modifies nothing
//@   requires -4503599627370496 <= peak && peak <= 4503599627370496 && 0 <= stddev && stddev <= 4503599627370496
//@   assert before call gaussian.NewDistribution : [curve-centred-on-the-configured-peak] arg0 == real(peak) && arg1 == real(stddev)
//@   loop 0 invariant -1 <= rangeindex && rangeindex < len(weights) && (rangeindex == -1 ==> totalWeight == 0.0) && (rangeindex == 0 ==> abs(totalWeight - weights[0]) <= abs(weights[0]) / 1048576.0 + 0.000000001)
//@   ensures [no-weights-mean-one] result.1 == nil && len(weights) == 0 ==> result.0.averageWeight == 1.0
//@   ensures [single-weight-is-its-own-mean] result.1 == nil && len(weights) == 1 ==> abs(result.0.averageWeight - weights[0]) <= abs(weights[0]) / 524288.0 + 0.00000001
//@   ensures [the-mean-weight-can-be-divided-by] result.1 == nil ==> result.0.averageWeight != 0.0
//@   ensures [stored-as-given] result.1 == nil ==> result.0 != nil && result.0.weights == weights && result.0.frequency == frequency && result.0.repeatWindow == repeatWindow
//@
//@ func (*Calculator).For
//@   props C11
//@   fp-inexact
//@   requires wfCalc11(c) && now >= timeZero()
//@   ghost at entry : G11acc = 0 ; G11steps = 0
//@   assert before call (*Distribution).PDF : [offset-inside-the-window] arg1 == real((now - timeZero()) % c.repeatWindow)
//@   ghost after call (Time).Add : G11acc = G11acc + c.repeatWindow ; G11steps = G11steps + 1
//@   loop 0 invariant i == G11steps && 0 <= i && G11acc == i * c.repeatWindow && startOfWeight == (now - (now - timeZero()) % (c.repeatWindow * len(c.weights))) + G11acc
//@   ghost before call math.Floor : G11rwr = arg0
//@   modifies c.remainder, G11rwr, G11acc, G11steps
//@   ensures [integer-part-requested] real(result) <= G11rwr && G11rwr < real(result) + 1.0
//@   ensures [fraction-carried] abs((real(result) + c.remainder) - G11rwr) <= 0.000000001 * (1.0 + abs(G11rwr)) && c.remainder >= 0.0 && c.remainder <= 1.000001
//@   ensures [never-negative] (c.dist.standardDeviation >= 0.000000001 && c.multiplier >= 0.0 && c.averageWeight > 0.0 && old(c.remainder) >= 0.0 && (forall j int :: 0 <= j && j < len(c.weights) ==> c.weights[j] >= 0.0)) ==> result >= 0
//@   ensures [window-index] len(c.weights) > 0 ==> (0 <= G11steps && G11steps < len(c.weights) && G11steps * c.repeatWindow == ((now - timeZero()) % (c.repeatWindow * len(c.weights))) - ((now - timeZero()) % c.repeatWindow))
