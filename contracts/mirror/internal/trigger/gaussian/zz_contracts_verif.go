//go:build verif

// Contracts for package gaussian (comment-only; read by /verif/bin/govc, see /verif/DESIGN.md §2.3).
package gaussian

//@ func NewCalculator
//@   props C14
//@   fp-abstract
//@   modifies nothing
//@   loop 0 invariant -1 <= rangeindex && rangeindex < len(weights)
//@   ensures [built] result.1 == nil ==> result.0 != nil && fresh(result.0) && result.0.dist != nil
//@   ensures [rejected] result.1 != nil ==> result.0 == nil
//@
//@ func CalculateGaussianRate
//@   props C14
//@   fp-abstract
//@   requires GJclaim == 1 ==> (jitter == 0.0 || (jitterConsts(jitter) && GJin == GJout))
//@   modifies G12R, G12E
//@   loop 0 invariant -1 <= rangeindex && rangeindex < len(weights)
//@   ensures [runnable] result.1 == nil ==> result.0 != nil && result.0.Rate != nil && result.0.IterationDuration > 0
//@   ensures [rejected] result.1 != nil ==> result.0 == nil
