//go:build verif

// Contracts for package rate (comment-only; read by /verif/bin/govc, see /verif/DESIGN.md §2.3).
package rate

//@ // ---- C14: every rate string is rejected with an error or yields a usable (rate, unit); accepted strings
//@ // mean what they spell. Strings are SMT strings (one character per byte); strconv.Atoi and
//@ // time.ParseDuration are trusted contracts (exact grammar, value of ParseDuration uninterpreted).
//@ func ParseRate
//@   props C14
//@   modifies nothing
//@   ensures [runnable] result.2 == nil ==> result.0 >= 0 && result.1 > 0
//@   ensures [bare] (result.2 == nil && !contains(rateArg, "/")) ==> result.0 == atoi(rateArg) && result.1 == 1000000000
//@   ensures [count] (result.2 == nil && contains(rateArg, "/")) ==> result.0 == atoi(substr(rateArg, 0, indexOf(rateArg, "/")))
//@   ensures [unit-as-spelled] (result.2 == nil && contains(rateArg, "/") && pdOk(substr(rateArg, indexOf(rateArg, "/") + 1, len(rateArg)))) ==>
//@           result.1 == pd(substr(rateArg, indexOf(rateArg, "/") + 1, len(rateArg)))
//@   ensures [bare-unit] (result.2 == nil && contains(rateArg, "/") && !pdOk(substr(rateArg, indexOf(rateArg, "/") + 1, len(rateArg)))) ==>
//@           result.1 == pd("1" + substr(rateArg, indexOf(rateArg, "/") + 1, len(rateArg)))
