//go:build verif

// Contracts for package staged (comment-only; read by /verif/bin/govc, see /verif/DESIGN.md §2.3).
package staged

//@ // ---- C14 (flag level): the staged trigger is built from the flags as the user gave them
//@ func Rate$1
//@   props C14 C10
//@   requires params != nil && GJclaim == 0 && G12claim == 0
//@   ghost after call (*FlagSet).GetFloat64 : GFflt[arg1] = ret0
//@   ghost after call (*FlagSet).GetDuration : GFdur[arg1] = ret0
//@   ghost after call (*FlagSet).GetString : GFstr[arg1] = ret0
//@   assert before call CalculateStagedRate : [flags-as-given] arg0 == GFflt["jitter"] && arg1 == GFdur["iterationFrequency"] && arg2 == GFstr["stages"] && arg3 == GFstr["distribution"]
//@   ghost after call CalculateStagedRate : GFrates = ret0
//@   ensures [runnable] result.1 == nil ==> result.0 != nil && result.0.Trigger != nil && result.0.DryRun != nil && result.0.Duration == GFrates.Duration
//@   ensures [rejected] result.1 != nil ==> result.0 == nil
//@
//@ // ---- C14: stage strings are rejected or usable
//@ func ParseStages
//@   props C14
//@   modifies nothing
//@   loop 0 invariant -1 <= rangeindex && rangeindex < len(stageElements) && len(stages) == len(stageElements) && fresh(stages)
//@   loop 0 invariant forall j int :: 0 <= j && j <= rangeindex ==> stages[j].EndTarget >= 0 && stages[j].StartTarget == 0
//@   ensures [runnable] result.1 == nil ==> len(result.0) >= 1 && (forall j int :: 0 <= j && j < len(result.0) ==> result.0[j].EndTarget >= 0)
//@   ensures [rejected] result.1 != nil ==> isnil(result.0)
//@
//@ // ---- C10: the calculator's data-structure invariant: targets are chained (each stage starts at the previous
//@ // stage's end target, the first at 0) and the cursor is in range.
//@ pred wfCalc(s *RateCalculator) = s != nil && -1 <= s.current && s.current <= len(s.stages) &&
//@     (len(s.stages) > 0 ==> s.stages[0].StartTarget == 0) &&
//@     (forall j int :: 0 < j && j < len(s.stages) ==> s.stages[j].StartTarget == s.stages[j - 1].EndTarget)
//@ pred nonnegTargets(s *RateCalculator) = forall j int :: 0 <= j && j < len(s.stages) ==> s.stages[j].EndTarget >= 0 && s.stages[j].StartTarget >= 0
//@
//@ func (*RateCalculator).add
//@   props C10 C14
//@   requires wfCalc(s)
//@   modifies s.stages
//@   ensures [appended] len(s.stages) == old(len(s.stages)) + 1 && s.stages[old(len(s.stages))].EndTarget == newStage.EndTarget && s.stages[old(len(s.stages))].Duration == newStage.Duration
//@   ensures [chained] s.stages[old(len(s.stages))].StartTarget == (old(len(s.stages)) == 0 ? 0 : old(s.stages[len(s.stages) - 1].EndTarget))
//@   ensures [kept] forall j int :: 0 <= j && j < old(len(s.stages)) ==> s.stages[j] == old(s.stages[j])
//@   ensures [wf] wfCalc(s)
//@
//@ func (*RateCalculator).addRange
//@   props C10 C14
//@   requires wfCalc(s) && len(s.stages) == 0
//@   modifies s.stages
//@   loop 0 invariant -1 <= rangeindex && rangeindex < len(stages) && wfCalc(s) && len(s.stages) == rangeindex + 1 && s.current == old(s.current)
//@   loop 0 invariant forall j int :: 0 <= j && j <= rangeindex ==> s.stages[j].EndTarget == stages[j].EndTarget && s.stages[j].Duration == stages[j].Duration
//@   ensures [all] wfCalc(s) && len(s.stages) == len(stages)
//@   ensures [same] forall j int :: 0 <= j && j < len(stages) ==> s.stages[j].EndTarget == stages[j].EndTarget && s.stages[j].Duration == stages[j].Duration
//@
//@ func NewRateCalculator
//@   props C10 C14
//@   modifies nothing
//@   ensures [wf] wfCalc(result) && fresh(result) && result.current == -1 && len(result.stages) == len(stages)
//@   ensures [same] forall j int :: 0 <= j && j < len(stages) ==> result.stages[j].EndTarget == stages[j].EndTarget && result.stages[j].Duration == stages[j].Duration
//@   ensures [start] result.start == (start == nil ? timeZero() : old(deref(start)))
//@
//@ // ---- C10: Rate is the piecewise-linear interpolation. Ghost: G10cum = prefix sums of the stage durations
//@ // (G10cum[0] = 0, G10cum[j+1] = G10cum[j] + duration j; monotone because durations are non-negative),
//@ // G10T0 = the instant the profile started.
//@ ghost var G10cum map[int]int
//@ ghost var G10T0 int
//@ ghost var G10off int
//@ pred cumOK(s *RateCalculator) = G10cum[0] == 0 &&
//@     (forall j int :: 0 <= j && j < len(s.stages) ==> G10cum[j + 1] == G10cum[j] + s.stages[j].Duration && s.stages[j].Duration >= 0 && s.stages[j].Duration <= 4503599627370496) &&
//@     (forall a int, b int :: 0 <= a && a <= b && b <= len(s.stages) ==> G10cum[a] <= G10cum[b])
//@ pred smallTargets(s *RateCalculator) = forall j int :: 0 <= j && j < len(s.stages) ==> -2147483648 <= s.stages[j].EndTarget && s.stages[j].EndTarget <= 2147483648 &&
//@     -2147483648 <= s.stages[j].StartTarget && s.stages[j].StartTarget <= 2147483648
//@
//@ func (*RateCalculator).MaxDuration
//@   props C10
//@   modifies nothing
//@   loop 0 invariant -1 <= rangeindex && rangeindex < len(s.stages) && (cumOK(s) ==> maxDuration == G10cum[rangeindex + 1])
//@   ensures [sum] cumOK(s) ==> result == G10cum[len(s.stages)]
//@
//@ func (*RateCalculator).Rate
//@   props C10 C14
//@   fp-monotone
//@   requires wfCalc(s) && cumOK(s) && smallTargets(s)
//@   requires s.current >= 0 ==> (s.start == G10T0 + G10cum[s.current] && now >= s.start)
//@   requires (s.current < 0 && s.start != timeZero()) ==> now >= s.start
//@   requires now - (s.current < 0 && s.start == timeZero() ? now : (s.current < 0 ? s.start : G10T0)) <= 4503599627370496
//@   ghost at entry : G10T0 = (s.current >= 0 ? G10T0 : (s.start == timeZero() ? now : s.start))
//@   modifies s.current, s.start, G10T0, G10off
//@   loop 0 invariant 0 <= s.current && s.current <= len(s.stages) && s.start == G10T0 + G10cum[s.current] && now >= s.start
//@   ghost at exit : G10off = now - s.start
//@   ensures [cursor] 0 <= s.current && s.current <= len(s.stages) && s.start == G10T0 + G10cum[s.current] && now >= s.start && wfCalc(s)
//@   ensures [elapsed] now - G10T0 >= G10cum[len(s.stages)] ==> result == 0
//@   ensures [in-stage] now - G10T0 < G10cum[len(s.stages)] ==> s.current < len(s.stages) && G10cum[s.current] <= now - G10T0 && now - G10T0 < G10cum[s.current + 1]
//@   ensures [offset-inside-the-stage] s.current < len(s.stages) ==> (0 <= G10off && G10off < s.stages[s.current].Duration && G10off == now - s.start)
//@   ensures [between-targets] s.current < len(s.stages) ==> min(s.stages[s.current].StartTarget, s.stages[s.current].EndTarget) <= result && result <= max(s.stages[s.current].StartTarget, s.stages[s.current].EndTarget)
//@
//@ func CalculateStagedRate
//@   props C14 C10
//@   requires GJclaim == 1 ==> (jitterArg == 0.0 || (jitterConsts(jitterArg) && GJin == GJout))
//@   modifies G12R, G12E
//@   ensures [runnable] result.1 == nil ==> result.0 != nil && result.0.Rate != nil && result.0.IterationDuration > 0
//@   ensures [rejected] result.1 != nil ==> result.0 == nil
