//go:build verif

// Contracts for package staged (comment-only; read by /verif/bin/govc, see /verif/DESIGN.md §2.3).
package staged

//@ // ---- C14: stage strings are rejected or usable
//@ func ParseStages
//@   props C14
//@   modifies nothing
//@   loop 0 invariant -1 <= rangeindex && rangeindex < len(stageElements) && len(stages) == len(stageElements) && fresh(stages)
//@   loop 0 invariant forall j int :: 0 <= j && j <= rangeindex ==> stages[j].EndTarget >= 0 && stages[j].StartTarget == 0
//@   ensures [runnable] result.1 == nil ==> len(result.0) >= 1 && (forall j int :: 0 <= j && j < len(result.0) ==> result.0[j].EndTarget >= 0)
//@   ensures [rejected] result.1 != nil ==> isnil(result.0)
//@
//@ // ---- C10: the calculator's data-structure invariant: targets are chained (each stage starts at the previous
//@ // stage's end target, the first at 0) and the cursor is in range.
//@ pred wfCalc(s *RateCalculator) = s != nil && -1 <= s.current && s.current <= len(s.stages) &&
//@     (len(s.stages) > 0 ==> s.stages[0].StartTarget == 0) &&
//@     (forall j int :: 0 < j && j < len(s.stages) ==> s.stages[j].StartTarget == s.stages[j - 1].EndTarget)
//@ pred nonnegTargets(s *RateCalculator) = forall j int :: 0 <= j && j < len(s.stages) ==> s.stages[j].EndTarget >= 0 && s.stages[j].StartTarget >= 0
//@
//@ func (*RateCalculator).add
//@   props C10 C14
//@   requires wfCalc(s)
//@   modifies s.stages
//@   ensures [appended] len(s.stages) == old(len(s.stages)) + 1 && s.stages[old(len(s.stages))].EndTarget == newStage.EndTarget && s.stages[old(len(s.stages))].Duration == newStage.Duration
//@   ensures [chained] s.stages[old(len(s.stages))].StartTarget == (old(len(s.stages)) == 0 ? 0 : old(s.stages[len(s.stages) - 1].EndTarget))
//@   ensures [kept] forall j int :: 0 <= j && j < old(len(s.stages)) ==> s.stages[j] == old(s.stages[j])
//@   ensures [wf] wfCalc(s)
//@
//@ func (*RateCalculator).addRange
//@   props C10 C14
//@   requires wfCalc(s) && len(s.stages) == 0
//@   modifies s.stages
//@   loop 0 invariant -1 <= rangeindex && rangeindex < len(stages) && wfCalc(s) && len(s.stages) == rangeindex + 1 && s.current == old(s.current)
//@   loop 0 invariant forall j int :: 0 <= j && j <= rangeindex ==> s.stages[j].EndTarget == stages[j].EndTarget && s.stages[j].Duration == stages[j].Duration
//@   ensures [all] wfCalc(s) && len(s.stages) == len(stages)
//@   ensures [same] forall j int :: 0 <= j && j < len(stages) ==> s.stages[j].EndTarget == stages[j].EndTarget && s.stages[j].Duration == stages[j].Duration
//@
//@ func NewRateCalculator
//@   props C10 C14
//@   ensures [wf] wfCalc(result) && fresh(result) && result.current == -1 && len(result.stages) == len(stages)
//@   ensures [same] forall j int :: 0 <= j && j < len(stages) ==> result.stages[j].EndTarget == stages[j].EndTarget && result.stages[j].Duration == stages[j].Duration
//@   ensures [start] result.start == (start == nil ? timeZero() : old(deref(start)))
