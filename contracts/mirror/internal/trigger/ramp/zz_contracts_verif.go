//go:build verif

// Contracts for package ramp (comment-only; read by /verif/bin/govc, see /verif/DESIGN.md §2.3).
package ramp

//@ // ---- C10: the ramp is the single linear segment from start-rate to end-rate over the ramp duration, 0 afterwards
//@ ghost var GRstart int
//@
//@ // ---- C14 (flag level): the ramp trigger is built from the flags as the user gave them; a zero ramp duration means
//@ // the run's max-duration
//@ func Rate$1
//@   props C14 C10
//@   requires flags != nil && GJclaim == 0 && G12claim == 0
//@   ghost after call (*FlagSet).GetFloat64 : GFflt[arg1] = ret0
//@   ghost after call (*FlagSet).GetDuration : GFdur[arg1] = ret0
//@   ghost after call (*FlagSet).GetString : GFstr[arg1] = ret0
//@   assert before call CalculateRampRate : [flags-as-given] arg0 == GFstr["start-rate"] && arg1 == GFstr["end-rate"] && arg2 == GFstr["distribution"] && arg4 == GFflt["jitter"] &&
//@          arg3 == (GFdur["ramp-duration"] == 0 ? GFdur["max-duration"] : GFdur["ramp-duration"])
//@   ensures [runnable] result.1 == nil ==> result.0 != nil && result.0.Trigger != nil && result.0.DryRun != nil
//@   ensures [rejected] result.1 != nil ==> result.0 == nil
//@
//@ func CalculateRampRate$1
//@   props C10 C14
//@   fp-monotone
//@   inv duration > 0
//@   inv startTime != nil ==> deref(startTime) == GRstart
//@   requires duration <= 4503599627370496 && -2147483648 <= startRate && startRate <= 2147483648 && -2147483648 <= endRate && endRate <= 2147483648
//@   requires startTime != nil ==> (now >= GRstart && now - GRstart <= 4503599627370496)
//@   ghost at entry : GRstart = (startTime == nil ? now : GRstart)
//@   modifies startTime, GRstart
//@   ensures [started] startTime != nil && GRstart == (old(startTime) == nil ? now : old(GRstart))
//@   ensures [after] now - GRstart > duration ==> result == 0
//@   ensures [between] now - GRstart <= duration ==> min(startRate, endRate) <= result && result <= max(startRate, endRate)
//@   ensures [nonneg] (startRate >= 0 && endRate >= 0) ==> result >= 0
//@
//@ func CalculateRampRate
//@   props C14 C10
//@   requires GJclaim == 1 ==> (jitterArg == 0.0 || (jitterConsts(jitterArg) && GJin == GJout))
//@   modifies G12R, G12E
//@   ensures [runnable] result.1 == nil ==> result.0 != nil && result.0.Rate != nil && result.0.IterationDuration > 0 && result.0.Duration == duration
//@   ensures [rejected] result.1 != nil ==> result.0 == nil
