//go:build verif

// Contracts for package progress (comment-only; read by /verif/bin/govc, see /verif/DESIGN.md §2.3).
package progress

//@ pred iterations(s *Snapshot) = (s.FailedIterationDurations.Count + s.SuccessfulIterationDurations.Count + s.DroppedIterationCount) % 18446744073709551616
//@
//@ func (*Snapshot).Iterations
//@   props C08 C19
//@   modifies nothing
//@   ensures result == iterations(s)
//@
//@ func (*Snapshot).IterationsStarted
//@   props C19
//@   modifies nothing
//@   ensures result == (s.SuccessfulIterationDurations.Count + s.FailedIterationDurations.Count) % 18446744073709551616
//@
//@ func (*Snapshot).FailedIterationsRate
//@   props C08
//@   requires iterations(s) != 0
//@   modifies nothing
//@   ensures result == ((s.FailedIterationDurations.Count * 100) % 18446744073709551616) / iterations(s)
