//go:build verif

// Contracts for package progress (comment-only; read by /verif/bin/govc, see /verif/DESIGN.md §2.3).
package progress

//@ pred iterations(s *Snapshot) = (s.FailedIterationDurations.Count + s.SuccessfulIterationDurations.Count + s.DroppedIterationCount) % 18446744073709551616
//@
//@ func (*Snapshot).Iterations
//@   props C08 C19
//@   modifies nothing
//@   ensures result == iterations(s)
//@
//@ func (*Snapshot).IterationsStarted
//@   props C19
//@   modifies nothing
//@   ensures result == (s.SuccessfulIterationDurations.Count + s.FailedIterationDurations.Count) % 18446744073709551616
//@
//@ func (*Snapshot).FailedIterationsRate
//@   props C08
//@   requires iterations(s) != 0
//@   modifies nothing
//@   ensures result == ((s.FailedIterationDurations.Count * 100) % 18446744073709551616) / iterations(s)
//@
//@ // ---- C17 / C01: aggregation (sequential use). Abstract view of an accumulator: (count, sum, min, max),
//@ // min == 0 meaning "no minimum yet".
//@ pred wfDur(i *IterationDurations) = i.count >= 0 && i.sum >= 0 && i.min >= 0 && i.max >= 0 &&
//@     (i.count == 0 ==> i.sum == 0 && i.min == 0 && i.max == 0) &&
//@     (i.count > 0 ==> 0 < i.min && i.min <= i.max && i.count * i.min <= i.sum && i.sum <= i.count * i.max)
//@ pred mergedMin(a int, b int) = a == 0 ? b : (b > 0 && b < a ? b : a)
//@
//@ func (*IterationDurations).Add
//@   props C17 C01
//@   requires nanoseconds > 0 && wfDur(i)
//@   modifies i.sum, i.count, i.min, i.max
//@   ensures [count] i.count == old(i.count) + 1 && i.sum == old(i.sum) + nanoseconds
//@   ensures [max] i.max == max(old(i.max), nanoseconds)
//@   ensures [min] i.min == (old(i.min) == 0 ? nanoseconds : min(old(i.min), nanoseconds))
//@   ensures [wf] wfDur(i)
//@
//@ func (*IterationDurations).average
//@   props C17
//@   requires wfDur(i)
//@   modifies nothing
//@   ensures result.0 == (i.count == 0 ? 0 : i.sum / i.count) && result.1 == i.count
//@
//@ func (*IterationDurations).Snapshot
//@   props C17 C01
//@   requires wfDur(i)
//@   modifies nothing
//@   ensures [view] result.Count == i.count && result.Average == (i.count == 0 ? 0 : i.sum / i.count) && result.Min == i.min && result.Max == i.max
//@   ensures [ordered] i.count > 0 ==> result.Min <= result.Average && result.Average <= result.Max
//@
//@ func (*IterationDurations).Update
//@   props C17 C01
//@   requires other != nil && wfDur(i) && wfDur(other) && i != other
//@   modifies i.sum, i.count, i.min, i.max
//@   ensures [merge] i.sum == old(i.sum) + other.sum && i.count == old(i.count) + other.count
//@   ensures [min] i.min == mergedMin(old(i.min), other.min)
//@   ensures [max] i.max == max(old(i.max), other.max)
//@   ensures [wf] wfDur(i)
//@
//@ func (*IterationDurations).Reset
//@   props C17 C01
//@   modifies i.sum, i.count, i.min, i.max
//@   ensures i.sum == 0 && i.count == 0 && i.min == 0 && i.max == 0 && wfDur(i)
//@
//@ func (*IterationDurations).moveTo
//@   props C17 C01
//@   requires dst != nil && dst != i && wfDur(i)
//@   modifies i.sum, i.count, i.min, i.max, dst.sum, dst.count, dst.min, dst.max
//@   ensures [moved] dst.sum == old(i.sum) && dst.count == old(i.count) && dst.min == old(i.min) && dst.max == old(i.max) && wfDur(dst)
//@   ensures [cleared] i.sum == 0 && i.count == 0 && i.min == 0 && i.max == 0 && wfDur(i)
//@
//@ pred wfStats(d *DurationStats) = wfDur(d.running) && wfDur(d.lifetime)
//@
//@ func (*DurationStats).Record
//@   props C17 C01
//@   requires nanoseconds > 0 && wfStats(d)
//@   modifies d.running
//@   ensures d.running.count == old(d.running.count) + 1 && d.running.sum == old(d.running.sum) + nanoseconds
//@   ensures d.running.max == max(old(d.running.max), nanoseconds)
//@   ensures d.running.min == (old(d.running.min) == 0 ? nanoseconds : min(old(d.running.min), nanoseconds))
//@   ensures wfStats(d)
//@
//@ func (*DurationStats).CollectLifetime
//@   props C17 C01
//@   requires wfStats(d)
//@   modifies d.running, d.lifetime
//@   ensures [period] result.0.Count == old(d.running.count) && result.0.Min == old(d.running.min) && result.0.Max == old(d.running.max) &&
//@           result.0.Average == (old(d.running.count) == 0 ? 0 : old(d.running.sum) / old(d.running.count))
//@   ensures [lifetime] d.lifetime.count == old(d.lifetime.count) + old(d.running.count) && d.lifetime.sum == old(d.lifetime.sum) + old(d.running.sum) &&
//@           d.lifetime.min == mergedMin(old(d.lifetime.min), old(d.running.min)) && d.lifetime.max == max(old(d.lifetime.max), old(d.running.max))
//@   ensures [result1] result.1.Count == d.lifetime.count && result.1.Min == d.lifetime.min && result.1.Max == d.lifetime.max &&
//@           result.1.Average == (d.lifetime.count == 0 ? 0 : d.lifetime.sum / d.lifetime.count)
//@   ensures [cleared] d.running.count == 0 && d.running.sum == 0 && d.running.min == 0 && d.running.max == 0
//@   ensures [monotone] d.lifetime.count >= old(d.lifetime.count)
//@   ensures [ordered] d.lifetime.count > 0 ==> result.1.Min <= result.1.Average && result.1.Average <= result.1.Max
//@   ensures [wf] wfStats(d)
//@
//@ // ---- whole-history accounting (sequential use): ghost aggregates of every Record call so far.
//@ ghost var NrecS int
//@ ghost var NrecF int
//@ ghost var NrecD int
//@ ghost var SumS int
//@ ghost var SumF int
//@ ghost var MinS int
//@ ghost var MinF int
//@ ghost var MaxS int
//@ ghost var MaxF int
//@ pred tracks(s *Stats) = wfStats(s.successfulIterationDurations) && wfStats(s.failedIterationDurations) &&
//@     s.successfulIterationDurations.lifetime.count + s.successfulIterationDurations.running.count == NrecS &&
//@     s.successfulIterationDurations.lifetime.sum + s.successfulIterationDurations.running.sum == SumS &&
//@     mergedMin(s.successfulIterationDurations.lifetime.min, s.successfulIterationDurations.running.min) == MinS &&
//@     max(s.successfulIterationDurations.lifetime.max, s.successfulIterationDurations.running.max) == MaxS &&
//@     s.failedIterationDurations.lifetime.count + s.failedIterationDurations.running.count == NrecF &&
//@     s.failedIterationDurations.lifetime.sum + s.failedIterationDurations.running.sum == SumF &&
//@     mergedMin(s.failedIterationDurations.lifetime.min, s.failedIterationDurations.running.min) == MinF &&
//@     max(s.failedIterationDurations.lifetime.max, s.failedIterationDurations.running.max) == MaxF &&
//@     s.droppedIterationCount == NrecD && NrecD >= 0 && NrecD <= 18446744073709551615
//@
//@ func (*Stats).Record
//@   props C17 C01
//@   requires tracks(s)
//@   requires (result == "success" || result == "fail") ==> nanoseconds > 0
//@   modifies s.successfulIterationDurations.running, s.failedIterationDurations.running, s.droppedIterationCount,
//@            NrecS, NrecF, NrecD, SumS, SumF, MinS, MinF, MaxS, MaxF
//@   ghost before call (*DurationStats).Record #0 : NrecS = NrecS + 1 ; SumS = SumS + nanoseconds ; MinS = (MinS == 0 ? nanoseconds : min(MinS, nanoseconds)) ; MaxS = max(MaxS, nanoseconds)
//@   ghost before call (*DurationStats).Record #1 : NrecF = NrecF + 1 ; SumF = SumF + nanoseconds ; MinF = (MinF == 0 ? nanoseconds : min(MinF, nanoseconds)) ; MaxF = max(MaxF, nanoseconds)
//@   ghost before call (*Uint64).Add #0 : NrecD = (NrecD + 1) % 18446744073709551616
//@   ensures [tracks] tracks(s)
//@   ensures [succ] NrecS == old(NrecS) + (result == "success" ? 1 : 0)
//@   ensures [fail] NrecF == old(NrecF) + (result == "fail" ? 1 : 0)
//@   ensures [drop] NrecD == (result == "dropped" ? (old(NrecD) + 1) % 18446744073709551616 : old(NrecD))
//@   ensures [period] s.successfulIterationDurations.running.count == old(s.successfulIterationDurations.running.count) + (result == "success" ? 1 : 0)
//@
//@ func (*Stats).Snapshot
//@   props C17 C01
//@   requires tracks(s)
//@   modifies s.successfulIterationDurations, s.failedIterationDurations
//@   ensures [tracks] tracks(s)
//@   ensures [lifetime] result.SuccessfulIterationDurations.Count == NrecS && result.FailedIterationDurations.Count == NrecF && result.DroppedIterationCount == NrecD
//@   ensures [figures] result.SuccessfulIterationDurations.Min == MinS && result.SuccessfulIterationDurations.Max == MaxS &&
//@           result.SuccessfulIterationDurations.Average == (NrecS == 0 ? 0 : SumS / NrecS) &&
//@           result.FailedIterationDurations.Min == MinF && result.FailedIterationDurations.Max == MaxF &&
//@           result.FailedIterationDurations.Average == (NrecF == 0 ? 0 : SumF / NrecF)
//@   ensures [period] result.SuccessfulIterationDurationsForPeriod.Count == old(s.successfulIterationDurations.running.count) &&
//@           result.SuccessfulIterationDurationsForPeriod.Min == old(s.successfulIterationDurations.running.min) &&
//@           result.SuccessfulIterationDurationsForPeriod.Max == old(s.successfulIterationDurations.running.max) &&
//@           result.Period == period
//@   ensures [cleared] s.successfulIterationDurations.running.count == 0 && s.failedIterationDurations.running.count == 0
//@   ensures [ordered] (NrecS > 0 ==> result.SuccessfulIterationDurations.Min <= result.SuccessfulIterationDurations.Average && result.SuccessfulIterationDurations.Average <= result.SuccessfulIterationDurations.Max)
//@
//@ func (*Stats).Total
//@   props C17 C01
//@   requires tracks(s)
//@   modifies s.successfulIterationDurations, s.failedIterationDurations
//@   ensures [tracks] tracks(s)
//@   ensures [lifetime] result.SuccessfulIterationDurations.Count == NrecS && result.FailedIterationDurations.Count == NrecF && result.DroppedIterationCount == NrecD
//@   ensures [figures] result.SuccessfulIterationDurations.Min == MinS && result.SuccessfulIterationDurations.Max == MaxS &&
//@           result.SuccessfulIterationDurations.Average == (NrecS == 0 ? 0 : SumS / NrecS) &&
//@           result.FailedIterationDurations.Min == MinF && result.FailedIterationDurations.Max == MaxF &&
//@           result.FailedIterationDurations.Average == (NrecF == 0 ? 0 : SumF / NrecF)
//@
//@ // ---- C01 under interleaving (variant @conc): the collector (serialised by the result mutex) runs while other
//@ // threads keep recording into the period accumulator G01acc. Each atomic operation is one step; between any two
//@ // steps the environment may perform any number of Add calls on G01acc (fnspec addsArrive). GnAdd[a] is the number
//@ // of count increments ever made on accumulator a. Claim: no record is lost or counted twice:
//@ // lifetime.count + running.count == GnAdd[running] is preserved by CollectLifetime.
//@ ghost var GnAdd map[int]int
//@ ghost var G01acc *IterationDurations
//@ ghost var GupdLoaded int
//@ ghost var GupdAt int
//@ ghost var GresetAt int
//@
//@ fnspec addsArrive(x *IterationDurations)
//@   modifies x.count, x.sum, x.min, x.max, GnAdd
//@   ensures x.count >= old(x.count) && x.count - old(x.count) == GnAdd[x] - old(GnAdd[x])
//@   ensures forall k int :: k != x ==> GnAdd[k] == old(GnAdd[k])
//@
//@ func (*IterationDurations).Add @conc
//@   props C01
//@   interference addsArrive(G01acc)
//@   requires i != nil && i == G01acc
//@   ghost after call (*Int64).Add #1 : GnAdd[i] = GnAdd[i] + 1
//@   modifies i.sum, i.count, i.min, i.max, GnAdd
//@   ensures [counted-once] i.count - old(i.count) == GnAdd[i] - old(GnAdd[i]) && GnAdd[i] >= old(GnAdd[i]) + 1
//@   ensures [others] forall k int :: k != i ==> GnAdd[k] == old(GnAdd[k])
//@
//@ func (*DurationStats).Record @conc
//@   props C01
//@   interference addsArrive(G01acc)
//@   requires d != nil && d.running == G01acc
//@   modifies d.running, GnAdd
//@   ensures [counted-once] d.running.count - old(d.running.count) == GnAdd[G01acc] - old(GnAdd[G01acc]) && GnAdd[G01acc] >= old(GnAdd[G01acc]) + 1
//@
//@ func (*IterationDurations).average @conc
//@   props C01
//@   interference addsArrive(G01acc)
//@   requires i != nil && G01acc != nil
//@   modifies G01acc.count, G01acc.sum, G01acc.min, G01acc.max, GnAdd
//@   ensures [env-only] G01acc.count >= old(G01acc.count) && G01acc.count - old(G01acc.count) == GnAdd[G01acc] - old(GnAdd[G01acc])
//@   ensures [others] forall k int :: k != G01acc ==> GnAdd[k] == old(GnAdd[k])
//@
//@ func (*IterationDurations).Snapshot @conc
//@   props C01
//@   interference addsArrive(G01acc)
//@   requires i != nil && G01acc != nil
//@   modifies G01acc.count, G01acc.sum, G01acc.min, G01acc.max, GnAdd
//@   ensures [env-only] G01acc.count >= old(G01acc.count) && G01acc.count - old(G01acc.count) == GnAdd[G01acc] - old(GnAdd[G01acc])
//@   ensures [others] forall k int :: k != G01acc ==> GnAdd[k] == old(GnAdd[k])
//@
//@ func (*IterationDurations).Update @conc
//@   props C01
//@   interference addsArrive(G01acc)
//@   requires i != nil && other != nil && i != other && i != G01acc && other != G01acc && G01acc != nil
//@   modifies i.sum, i.count, i.min, i.max, G01acc.count, G01acc.sum, G01acc.min, G01acc.max, GnAdd
//@   ensures [merged] i.count == old(i.count) + other.count && other.count == old(other.count)
//@   ensures [env-only] G01acc.count >= old(G01acc.count) && G01acc.count - old(G01acc.count) == GnAdd[G01acc] - old(GnAdd[G01acc])
//@   ensures [others] forall k int :: k != G01acc ==> GnAdd[k] == old(GnAdd[k])
//@
//@ func (*IterationDurations).moveTo @conc
//@   props C01
//@   interference addsArrive(G01acc)
//@   requires i != nil && i == G01acc && dst != nil && dst != i
//@   ghost after call (*Int64).Swap #1 : GupdLoaded = ret0 ; GupdAt = GnAdd[i]
//@   modifies i.sum, i.count, i.min, i.max, dst.sum, dst.count, dst.min, dst.max, GnAdd, GupdLoaded, GupdAt
//@   ensures [moved-what-was-there] dst.count == GupdLoaded && GupdLoaded - old(i.count) == GupdAt - old(GnAdd[i])
//@   ensures [left-behind] i.count == GnAdd[i] - GupdAt && old(GnAdd[i]) <= GupdAt
//@   ensures [others] forall k int :: k != i ==> GnAdd[k] == old(GnAdd[k])
//@
//@ func (*IterationDurations).Reset @conc
//@   props C01
//@   interference addsArrive(G01acc)
//@   requires i != nil && i == G01acc
//@   ghost after call (*Int64).Store #1 : GresetAt = GnAdd[i]
//@   modifies i.sum, i.count, i.min, i.max, GnAdd, GresetAt
//@   ensures [cleared-then-grows] i.count == GnAdd[i] - GresetAt && old(GnAdd[i]) <= GresetAt
//@   ensures [others] forall k int :: k != i ==> GnAdd[k] == old(GnAdd[k])
//@
//@ func (*DurationStats).CollectLifetime @conc
//@   props C01
//@   interference addsArrive(G01acc)
//@   requires d != nil && G01acc == d.running
//@   requires [conserved] d.lifetime.count + d.running.count == GnAdd[G01acc]
//@   modifies d.running, d.lifetime, GnAdd, GupdLoaded, GupdAt, GresetAt
//@   ensures [conserved] d.lifetime.count + d.running.count == GnAdd[G01acc]
