//go:build verif

// Contracts for package workers (comment-only; read by /verif/bin/govc, see /verif/DESIGN.md §2.3).
package workers

//@ globalinv {C03} errMaxIterationsReached != nil
//@
//@ // ---- C03: max-iterations is a hard ceiling; ids unique and gapless.
//@ // NextIteration is one atomic step `issue` on the shared counter: iteration' = iteration + 1, and the id handed
//@ // out is the new counter value unless it exceeds the limit.
//@ func (*PoolManager).WaitForCompletion
//@   props C05 C06
//@   spawns (*PoolManager).WaitForCompletion$1
//@   requires m != nil
//@   modifies closedchans
//@   ensures result != nil && !closed(result)
//@
//@ func (*PoolManager).NextIteration
//@   props C03
//@   note the 64-bit counter is assumed not to wrap (fewer than 2^64 iterations per run); the step is stated modulo 2^64
//@   modifies m.iteration
//@   ensures [step] m.iteration == (old(m.iteration) + 1) % 18446744073709551616
//@   ensures [issued] (m.maxIterations == 0 || m.iteration <= m.maxIterations) ==> (result.1 == nil && result.0 == m.iteration)
//@   ensures [refused] (m.maxIterations > 0 && m.iteration > m.maxIterations) ==> (result.1 != nil && result.0 == 0)
//@
//@ // C03 under interleaving (variant @conc): other workers issue ids at the same time. G3count = the number of ids issued
//@ // so far by anyone; the rely is that the others keep the counter equal to it (each of their issues is one atomic
//@ // add); the guarantee is that this call does too, which it can only do if reading and advancing the counter is ONE
//@ // atomic step (with a separate load and store another worker's issue in between is overwritten: a duplicate id).
//@ ghost var G3count int
//@ fnspec idsEnv(m *PoolManager)
//@   modifies m.iteration, G3count
//@   ensures m.iteration - old(m.iteration) == G3count - old(G3count) && G3count >= old(G3count) && G3count < 4611686018427387904
//@
//@ func (*PoolManager).NextIteration @conc
//@   props C03
//@   interference idsEnv(m)
//@   requires m != nil && m.iteration == G3count && 0 <= G3count && G3count < 4611686018427387904
//@   modifies m.iteration, G3count
//@   ghost at exit : G3count = G3count + 1
//@   ensures [the-counter-counts-the-ids-issued] m.iteration == G3count
//@
//@ func (*PoolManager).MaxIterationsReached
//@   props C03 C05
//@   modifies nothing
//@   ensures result <==> (m.maxIterations > 0 && m.iteration > m.maxIterations)
//@
//@ func New
//@   props C03
//@   modifies nothing
//@   ensures result != nil && result.maxIterations == maxIterations && result.iteration == 0 && result.activeScenario == activeScenario
//@
//@ // History lemma: a counter that only moves by `issue` steps hands out pairwise distinct, gapless ids 1..k, k <= N.
//@ lemma idsDistinct
//@   props C03
//@   vars c1 int, c2 int, max int, id1 int, id2 int
//@   hyp 0 <= c1 && c1 < c2 && max >= 0
//@   hyp (max == 0 || c1 + 1 <= max) && id1 == c1 + 1
//@   hyp (max == 0 || c2 + 1 <= max) && id2 == c2 + 1
//@   goal id1 != id2 && id1 >= 1 && id1 < id2 && (max > 0 ==> id2 <= max)
//@
//@ lemma idsGapless
//@   props C03
//@   vars c int, max int, id int
//@   hyp 0 <= c && max >= 0 && (max == 0 || c + 1 <= max) && id == c + 1
//@   goal id == c + 1 && (max > 0 && c >= max ==> false)
//@
//@ // ---- one iteration (C01, C06, C07, C16, C17)
//@ pred wfState(st *iterationState) = st != nil && wfT(st.t) && isBound(st.teardown, st.t, "teardown")
//@ pred wfScenario(s *ActiveScenario) = s != nil && s.scenario != nil && s.m != nil && s.progress != nil && s.scenario.RunFn != nil &&
//@     s.m.Iteration != nil && s.m.Setup != nil
//@ ghost var Gpan bool
//@ ghost var Gphase int
//@ ghost var GT0 int
//@ ghost var GT1 int
//@ ghost var Gfailed bool
//@ ghost var GbodyStart int
//@ ghost var GbodyEnd int
//@ ghost var GmarksAtBody int
//@ ghost var GnCleanups int
//@
//@ func (*ActiveScenario).Run$1
//@   props C07 C06 C17
//@   requires wfScenario(s) && wfState(state) && !state.t.tearingDown
//@   dyncall RunFn : userIter
//@   ghost at entry : Gpan = false
//@   ghost before call dyn:RunFn : GbodyStart = Gclock
//@   ghost onpanic call dyn:RunFn : Gpan = true
//@   ghost at exit : GbodyEnd = Gclock
//@   modifies state.t.failed, state.t.teardownFailed, state.t.teardownStack, Gmarks, Gpan, GbodyStart, GbodyEnd
//@   ensures [contained] state.t.failed <==> (old(state.t.failed) || Gmarks > old(Gmarks) || Gpan)
//@   ensures [teardown-flag] state.t.teardownFailed == old(state.t.teardownFailed)
//@   ensures [wf] wfT(state.t) && !state.t.tearingDown && Gmarks >= old(Gmarks)
//@   ensures [handle] GbodyStart == old(Gclock) && GbodyEnd == Gclock
//@
//@ func (*ActiveScenario).Run
//@   props C01 C06 C07 C16 C17
//@   requires wfScenario(s) && wfState(state) && !state.t.failed && !state.t.tearingDown && tracks(s.progress)
//@   dyncall teardown : method testing.(*T).teardown(state.t)
//@   ghost at entry : Gphase = 0
//@   ghost after call xtime.NanoTime #0 : assert [clock-first] Gphase == 0 ; Gphase = 1 ; GT0 = ret0
//@   ghost before call Run$1 : assert [body-after-clock] Gphase == 1 ; Gphase = 2
//@   ghost after call Run$1 : Gphase = 3 ; GmarksAtBody = Gmarks
//@   ghost after call (*T).Failed #0 : assert [outcome-after-body] Gphase == 3 ; Gphase = 4 ; Gfailed = ret0
//@   ghost after call xtime.NanoTime #1 : assert [clock-after-outcome] Gphase == 4 ; Gphase = 5 ; GT1 = ret0
//@   ghost before call (*Metrics).RecordIterationResult #0 : assert [metric-after-clock] Gphase == 5 ; assert [metric-args] arg1 == s.scenario.Name && arg2 == (Gfailed ? "fail" : "success") && arg3 == GT1 - GT0 ; Gphase = 6
//@   ghost before call (*Stats).Record #0 : assert [stats-after-metric] Gphase == 6 ; assert [stats-args] arg1 == (Gfailed ? "fail" : "success") && arg2 == GT1 - GT0 ; Gphase = 7
//@   ghost before call dyn:teardown : assert [cleanups-last] Gphase == 7 ; Gphase = 8 ; GnCleanups = len(state.t.teardownStack)
//@   modifies state.t.failed, state.t.teardownFailed, state.t.teardownStack, state.t.tearingDown, Gmarks, Gpan, GbodyStart, GbodyEnd,
//@            Gphase, GT0, GT1, Gfailed, GmarksAtBody, GnCleanups, Gclock, GMiter, Gcalled, GlastCalled,
//@            s.progress.successfulIterationDurations.running, s.progress.failedIterationDurations.running, s.progress.droppedIterationCount,
//@            NrecS, NrecF, NrecD, SumS, SumF, MinS, MinF, MaxS, MaxF
//@   ensures [classified] Gfailed <==> (GmarksAtBody > old(Gmarks) || Gpan)
//@   ensures [counted-once] NrecS == old(NrecS) + (Gfailed ? 0 : 1) && NrecF == old(NrecF) + (Gfailed ? 1 : 0) && NrecD == old(NrecD)
//@   ensures [exported] s.m.IterationMetricsEnabled ==> ((Gfailed ==> GMiter["fail"] == old(GMiter["fail"]) + 1 && GMiter["success"] == old(GMiter["success"])) &&
//@           (!Gfailed ==> GMiter["success"] == old(GMiter["success"]) + 1 && GMiter["fail"] == old(GMiter["fail"]))) && GMiter["dropped"] == old(GMiter["dropped"])
//@   ensures [duration] GT0 <= GbodyStart && GbodyEnd <= GT1 && GT1 - GT0 >= GbodyEnd - GbodyStart
//@   ensures [cleanups] forall j int :: 0 <= j && j < GnCleanups ==> Gcalled[j] == old(Gcalled[j]) + 1
//@   ensures [done] Gphase == 8 && tracks(s.progress) && state.t.tearingDown && wfState(state)
//@
//@ func NewActiveScenario
//@   props C14 C08 C06
//@   requires scenario != nil
//@   modifies nothing
//@   ensures [built] result != nil && fresh(result) && result.scenario == scenario && result.m == metricsInstance && result.progress == stats &&
//@           wfT(result.t) && fresh(result.t) && !result.t.failed && !result.t.tearingDown && isBound(result.Teardown, result.t, "teardown")
//@
//@ // ---- setup (C06, C16): the scenario's setup function runs once, recovered; its outcome is read after the
//@ // recovery and exactly one setup sample is exported with that outcome.
//@ func (*ActiveScenario).Setup$1
//@   props C06 C16 C07 C20
//@   requires s != nil && s.scenario != nil && s.scenario.ScenarioFn != nil && wfT(s.t) && !s.t.tearingDown
//@   dyncall ScenarioFn : userSetup
//@   ghost at entry : Gpan = false
//@   ghost onpanic call dyn:ScenarioFn : Gpan = true
//@   modifies s.t.failed, s.t.teardownFailed, s.t.teardownStack, s.scenario.RunFn, Gmarks, Gpan
//@   ensures [contained] s.t.failed <==> (old(s.t.failed) || Gmarks > old(Gmarks) || Gpan)
//@   ensures [run-fn] !Gpan ==> s.scenario.RunFn != nil
//@   ensures [wf] wfT(s.t) && !s.t.tearingDown && Gmarks >= old(Gmarks)
//@
//@ func (*ActiveScenario).Setup
//@   props C06 C16 C20
//@   requires s != nil && s.scenario != nil && s.scenario.ScenarioFn != nil && wfT(s.t) && !s.t.tearingDown && !s.t.failed && s.m != nil && s.m.Setup != nil
//@   ghost at entry : Gphase = 0
//@   ghost before call Setup$1 : assert [once] Gphase == 0 ; Gphase = 1
//@   ghost after call Setup$1 : Gphase = 2 ; GmarksAtBody = Gmarks
//@   ghost after call (*T).Failed #0 : assert [outcome-after-setup] Gphase == 2 ; Gphase = 3 ; Gfailed = ret0
//@   ghost before call (*Metrics).RecordSetupResult #0 : assert [metric-after-outcome] Gphase == 3 ; assert [metric-args] arg1 == s.scenario.Name && arg2 == (Gfailed ? "fail" : "success") ; Gphase = 4
//@   modifies s.t.failed, s.t.teardownFailed, s.t.teardownStack, s.scenario.RunFn, Gmarks, Gpan, Gphase, Gfailed, GmarksAtBody, GMsetup, Gclock
//@   ensures [classified] Gfailed <==> (GmarksAtBody > old(Gmarks) || Gpan)
//@   ensures [outcome] Gfailed == s.t.failed
//@   ensures [one-sample] (Gfailed ==> GMsetup["fail"] == old(GMsetup["fail"]) + 1 && GMsetup["success"] == old(GMsetup["success"])) &&
//@           (!Gfailed ==> GMsetup["success"] == old(GMsetup["success"]) + 1 && GMsetup["fail"] == old(GMsetup["fail"]))
//@   ensures [done] Gphase == 4 && wfT(s.t)
//@
//@ // G2drops: exact number of drops reported so far (no wrap-around, unlike the uint64 field it mirrors)
//@ ghost var G2drops int
//@ func (*ActiveScenario).RecordDroppedIteration
//@   props C01 C02 C16
//@   requires wfScenario(s) && tracks(s.progress)
//@   ghost at exit : G2drops = G2drops + 1
//@   ensures [reported-once] G2drops == old(G2drops) + 1
//@   modifies G2drops, GMiter, s.progress.successfulIterationDurations.running, s.progress.failedIterationDurations.running, s.progress.droppedIterationCount,
//@            NrecS, NrecF, NrecD, SumS, SumF, MinS, MinF, MaxS, MaxF
//@   ensures [counted-once] NrecD == (old(NrecD) + 1) % 18446744073709551616 && NrecS == old(NrecS) && NrecF == old(NrecF) && tracks(s.progress)
//@   ensures [exported] s.m.IterationMetricsEnabled ==> GMiter["dropped"] == old(GMiter["dropped"]) + 1
//@
//@ func (*ActiveScenario).Failed
//@   props C06
//@   requires s.t != nil
//@   modifies nothing
//@   ensures result == s.t.failed
//@
//@ func (*ActiveScenario).TeardownFailed
//@   props C06
//@   requires s.t != nil
//@   modifies nothing
//@   ensures result == s.t.teardownFailed
//@
//@ // ---- C04: a fixed pool of `concurrency` workers, each owning a fresh handle
//@ func (*ActiveScenario).newIterationState
//@   props C04 C03 C07 C01
//@   modifies nothing
//@   requires s.scenario != nil
//@   ensures [fresh] fresh(result) && fresh(result.t) && result.t < result
//@   ensures [wf] wfState(result) && !result.t.failed && !result.t.tearingDown
//@
//@ func (*PoolManager).makeIterationStatePool
//@   props C04 C03 C07 C01 C14 C06 C17 C20 C16 C08
//@   modifies nothing
//@   requires numWorkers >= 0 && m.activeScenario != nil && m.activeScenario.scenario != nil
//@   loop 0 invariant 0 <= i && i < numWorkers && len(statePool) == numWorkers && fresh(statePool)
//@   loop 0 invariant forall a int :: 0 <= a && a < i ==> fresh(statePool[a]) && fresh(statePool[a].t) && statePool[a].t < statePool[a] && wfState(statePool[a])
//@   loop 0 invariant forall a int, b int :: 0 <= a && a < b && b < i ==> statePool[a] < statePool[b].t
//@   ensures [size] len(result) == numWorkers
//@   ensures [fresh] forall a int :: 0 <= a && a < numWorkers ==> fresh(result[a]) && fresh(result[a].t) && wfState(result[a])
//@   ensures [distinct] forall a int, b int :: 0 <= a && a < b && b < numWorkers ==> result[a] != result[b] && result[a].t != result[b].t
//@
//@ // ---- worker pools (C03 consume protocol, C04 spawn count / own handle, C05 wait-group balance, C07 worker survives)
//@ ghost var Gid int
//@ ghost var Gok bool
//@ ghost var Greset bool
//@ ghost var Gruns int
//@ ghost var Gwg int
//@ ghost var Gspawned int
//@
//@ pred wfManager(m *PoolManager) = m != nil && wfScenario(m.activeScenario) && tracks(m.activeScenario.progress)
//@
//@ func (*jobCounter).set
//@   props C02 C03 C05 C09
//@   modifies w.num
//@   ensures result == old(w.num) && w.num == n
//@
//@ func (*jobCounter).none
//@   props C02 C03 C05 C09
//@   modifies nothing
//@   ensures result == (w.num <= 0)
//@
//@ func (*jobCounter).take
//@   props C02 C03 C09
//@   modifies w.num
//@   ensures w.num == old(w.num) - 1 && result == (w.num >= 0)
//@
//@ func (*TriggerPool).running
//@   props C02 C03 C05
//@   modifies nothing
//@   ensures result == !p.stopWorkers
//@
//@ // C02: stopping drains the pending requests and reports exactly those as dropped
//@ func (*TriggerPool).stop
//@   props C02 C05
//@   requires wfTriggerPool(p)
//@   modifies G2drops, p.stopWorkers, p.jobsToExecute.num, GMiter, p.manager.activeScenario.progress.successfulIterationDurations.running, p.manager.activeScenario.progress.failedIterationDurations.running,
//@            p.manager.activeScenario.progress.droppedIterationCount, NrecS, NrecF, NrecD, SumS, SumF, MinS, MinF, MaxS, MaxF
//@   ensures [stopped] p.stopWorkers && p.jobsToExecute.num == 0
//@   ensures [pending-dropped] (limitReached(p.manager) ? G2drops == old(G2drops) : G2drops == old(G2drops) + max(0, old(p.jobsToExecute.num))) && NrecS == old(NrecS) && NrecF == old(NrecF)
//@
//@ func (*TriggerPool).maxIterationsReached
//@   props C02 C03 C05
//@   requires p.workerCtxCancel != nil
//@   dyncall workerCtxCancel : cancelFunc
//@   modifies p.jobsToExecute.num
//@   ensures p.jobsToExecute.num == 0
//@
//@ fnspec cancelFunc()
//@   modifies nothing
//@
//@ // C04 (no lost wake-up, waiter side): a worker goes to sleep only after it has found no pending request while
//@ // holding the condition's lock, so a tick (which installs and broadcasts under that lock) cannot fall between
//@ // the check and the sleep.
//@ ghost var G4sawEmpty bool
//@ func (*TriggerPool).waitForNewJobs
//@   props C02 C03 C05 C04
//@   requires p.jobsAvailableCond != nil
//@   ghost at entry : G4sawEmpty = false
//@   ghost after call (*jobCounter).none : G4sawEmpty = ret0 && heldLocker(p.jobsAvailableCond.L)
//@   assert before call (*Cond).Wait : {C04} [sleeps-only-after-finding-nothing-pending-under-the-lock] G4sawEmpty
//@   ghost after call (*Cond).Wait : G4sawEmpty = false
//@   modifies nothing
//@
//@ func (*TriggerPool).run
//@   props C03 C04 C05 C07 C02
//@   thread-root
//@   modifies allbut(G2drops)
//@   requires wfManager(p.manager) && wfState(iterationState) && startWg != nil && p.jobsAvailableCond != nil && p.workerCtxCancel != nil
//@   ghost at entry : Gok = false ; Greset = false
//@   ghost after call (*PoolManager).NextIteration : Gid = ret0 ; Gok = (ret1 == nil)
//@   ghost before call (*T).Reset : assert [reset-after-issue] Gok && !Greset ; assert [reset-id] arg1 == formatUint(Gid, 10) ; assert [own-handle] arg0 == iterationState.t ; Greset = true
//@   ghost before call (*ActiveScenario).Run : assert [run-after-reset] Gok && Greset ; assert [own-state] arg1 == iterationState ; Gok = false ; Greset = false ; Gruns = Gruns + 1
//@   loop 0 invariant !Gok && !Greset && wfManager(p.manager) && wfState(iterationState) && G2drops == old(G2drops)
//@   ensures [consumed] !Gok
//@
//@ // ---- C02 / C03 under interleaving (variant @taken): the stop flag may be raised, and the pending count changed, by
//@ // other threads between any two steps of a worker (fnspec stopEnv). A request the worker has taken (the pending
//@ // count went down on its behalf) must be answered: the worker asks for an iteration id, and then either runs the
//@ // iteration or meets the limit. Leaving between the take and the id request (for instance after re-reading the stop
//@ // flag) loses the request: it is neither started nor reported dropped; leaving after the id was issued loses the id.
//@ ghost var G2taken int
//@ ghost var G2answered int
//@ ghost var G3issuedHere int
//@ ghost var G3ranHere int
//@ fnspec stopEnv(p *TriggerPool)
//@   modifies p.stopWorkers, p.jobsToExecute.num
//@   ensures old(p.stopWorkers) ==> p.stopWorkers
//@
//@ func (*TriggerPool).run @taken
//@   props C02 C03
//@   thread-root
//@   interference stopEnv(p)
//@   requires p != nil && p.manager != nil && p.manager.activeScenario != nil && p.jobsToExecute != nil && iterationState != nil && iterationState.t != nil && startWg != nil && p.jobsAvailableCond != nil && p.workerCtxCancel != nil
//@   dyncall workerCtxCancel : cancelFunc
//@   ghost at entry : G2taken = 0 ; G2answered = 0 ; G3issuedHere = 0 ; G3ranHere = 0
//@   ghost after call (*jobCounter).take : G2taken = G2taken + (ret0 ? 1 : 0)
//@   ghost before call (*PoolManager).NextIteration : G2answered = G2answered + 1
//@   ghost after call (*PoolManager).NextIteration : G3issuedHere = G3issuedHere + (ret1 == nil ? 1 : 0)
//@   ghost before call (*ActiveScenario).Run : G3ranHere = G3ranHere + 1
//@   loop 0 invariant G2taken == G2answered && G3issuedHere == G3ranHere && p.manager != nil && p.manager.activeScenario != nil && p.jobsToExecute != nil && iterationState.t != nil && p.jobsAvailableCond != nil && p.workerCtxCancel != nil
//@   ensures [every-request-taken-is-answered] G2taken == G2answered
//@   ensures [every-id-issued-is-run] G3issuedHere == G3ranHere
//@
//@ // one atomic operation each: a single step of this thread, the environment moves before and after it (at the caller)
//@ func (*jobCounter).none @taken
//@   props C02 C03
//@   modifies nothing
//@   ensures result == (w.num <= 0)
//@
//@ func (*jobCounter).take @taken
//@   props C02 C03
//@   modifies w.num
//@   ensures w.num == old(w.num) - 1 && result == (w.num >= 0)
//@
//@ func (*TriggerPool).running @taken
//@   props C02 C03
//@   modifies nothing
//@   ensures result == !p.stopWorkers
//@
//@ func (*TriggerPool).waitForNewJobs @taken
//@   props C02 C03
//@   interference stopEnv(p)
//@   requires p != nil && p.jobsAvailableCond != nil && p.jobsToExecute != nil
//@   modifies p.stopWorkers, p.jobsToExecute.num
//@   ensures [stop-flag-only-raised] old(p.stopWorkers) ==> p.stopWorkers
//@
//@ fnspec stopEnvC(p *ContinuousPool)
//@   modifies p.stopWorkers
//@   ensures old(p.stopWorkers) ==> p.stopWorkers
//@
//@ func (*ContinuousPool).startWorker @taken
//@   props C03
//@   thread-root
//@   interference stopEnvC(p)
//@   requires p != nil && p.manager != nil && p.manager.activeScenario != nil && iterationState != nil && iterationState.t != nil && workersStarted != nil && p.workerCtxCancel != nil
//@   dyncall workerCtxCancel : cancelFunc
//@   ghost at entry : G3issuedHere = 0 ; G3ranHere = 0
//@   ghost after call (*PoolManager).NextIteration : G3issuedHere = G3issuedHere + (ret1 == nil ? 1 : 0)
//@   ghost before call (*ActiveScenario).Run : G3ranHere = G3ranHere + 1
//@   loop 0 invariant G3issuedHere == G3ranHere && p.manager != nil && p.manager.activeScenario != nil && iterationState.t != nil && p.workerCtxCancel != nil
//@   ensures [every-id-issued-is-run] G3issuedHere == G3ranHere
//@
//@ func (*ActiveScenario).Run @taken
//@   props C02 C03
//@   trusted frame taken from the verified base contract (its preconditions are discharged in the base pass of the worker loop); the iteration touches neither the pool nor the ghost counters of this pass
//@   modifies state.t.failed, state.t.teardownFailed, state.t.teardownStack, state.t.tearingDown, Gmarks, Gpan, GbodyStart, GbodyEnd,
//@            Gphase, GT0, GT1, Gfailed, GmarksAtBody, GnCleanups, Gclock, GMiter, Gcalled, GlastCalled,
//@            s.progress.successfulIterationDurations.running, s.progress.failedIterationDurations.running, s.progress.droppedIterationCount,
//@            NrecS, NrecF, NrecD, SumS, SumF, MinS, MinF, MaxS, MaxF
//@
//@ func (*ContinuousPool).startWorker
//@   props C03 C04 C05 C07
//@   thread-root
//@   requires wfManager(p.manager) && wfState(iterationState) && workersStarted != nil && p.workerCtxCancel != nil
//@   dyncall workerCtxCancel : cancelFunc
//@   ghost at entry : Gok = false ; Greset = false
//@   ghost after call (*PoolManager).NextIteration : Gid = ret0 ; Gok = (ret1 == nil)
//@   ghost before call (*T).Reset : assert [reset-after-issue] Gok && !Greset ; assert [reset-id] arg1 == formatUint(Gid, 10) ; assert [own-handle] arg0 == iterationState.t ; Greset = true
//@   ghost before call (*ActiveScenario).Run : assert [run-after-reset] Gok && Greset ; assert [own-state] arg1 == iterationState ; Gok = false ; Greset = false ; Gruns = Gruns + 1
//@   loop 0 invariant !Gok && !Greset && wfManager(p.manager) && wfState(iterationState)
//@   ensures [consumed] !Gok
//@
//@ func (*ContinuousPool).maxIterationsReached
//@   props C03 C05
//@   requires p.workerCtxCancel != nil
//@   dyncall workerCtxCancel : cancelFunc
//@   modifies nothing
//@
//@ pred limitReached(m *PoolManager) = m.maxIterations > 0 && m.iteration > m.maxIterations
//@ pred wfStates(pool []*iterationState) = (forall a int :: 0 <= a && a < len(pool) ==> wfState(pool[a])) &&
//@     (forall a int, b int :: 0 <= a && a < b && b < len(pool) ==> pool[a] != pool[b] && pool[a].t != pool[b].t)
//@ pred wfTriggerPool(p *TriggerPool) = p != nil && wfManager(p.manager) && p.numWorkers == len(p.iterationStatePool) &&
//@     wfStates(p.iterationStatePool) && p.jobsAvailableCond != nil
//@ pred wfContinuousPool(p *ContinuousPool) = p != nil && wfManager(p.manager) && p.numWorkers == len(p.iterationStatePool) &&
//@     wfStates(p.iterationStatePool)
//@
//@ func newTriggerPool
//@   props C04 C14
//@   modifies nothing
//@   requires numWorkers >= 0 && wfManager(m)
//@   ensures [wf] wfTriggerPool(result) && result.numWorkers == numWorkers && result.manager == m && fresh(result)
//@   ensures [idle] result.jobsToExecute.num == 0 && !result.stopWorkers
//@
//@ func newContinuousPool
//@   props C04 C14
//@   modifies nothing
//@   requires numWorkers >= 0 && wfManager(m)
//@   ensures [wf] wfContinuousPool(result) && result.numWorkers == numWorkers && result.manager == m && fresh(result)
//@   ensures [idle] !result.stopWorkers
//@
//@ func (*PoolManager).NewTriggerPool
//@   props C04 C14 C06 C07
//@   modifies nothing
//@   requires numWorkers >= 0 && wfManager(m)
//@   ensures wfTriggerPool(result) && result.numWorkers == numWorkers && result.manager == m
//@
//@ func (*PoolManager).NewContinuousPool
//@   props C04 C14 C06 C07
//@   modifies nothing
//@   requires numWorkers >= 0 && wfManager(m)
//@   ensures wfContinuousPool(result) && result.numWorkers == numWorkers && result.manager == m
//@
//@ func (*TriggerPool).Start
//@   props C04 C05
//@   spawns (*TriggerPool).Start$1
//@   requires wfTriggerPool(p)
//@   ghost at entry : Gspawned = 0 ; Gwg = 0
//@   ghost before call (*WaitGroup).Add #0 : Gwg = Gwg + arg1
//@   ghost before call (*TriggerPool).run : assert [own-state] arg1 == p.iterationStatePool[rangeindex + 1] ; assert [same-pool] arg0 == p ; Gspawned = Gspawned + 1
//@   loop 0 invariant -1 <= rangeindex && rangeindex < len(p.iterationStatePool) && Gspawned == rangeindex + 1 && Gwg == p.numWorkers && p.workerCtxCancel != nil && wfTriggerPool(p)
//@   modifies p.workerCtxCancel, Gspawned, Gwg
//@   ensures [spawned] Gspawned == p.numWorkers && Gwg == p.numWorkers
//@   ensures [cancel] p.workerCtxCancel != nil && result != nil
//@
//@ func (*ContinuousPool).Start
//@   props C04 C05
//@   spawns (*ContinuousPool).Start$1
//@   requires wfContinuousPool(p)
//@   ghost at entry : Gspawned = 0 ; Gwg = 0
//@   ghost before call (*WaitGroup).Add #1 : Gwg = Gwg + arg1
//@   ghost before call (*ContinuousPool).startWorker : assert [own-state] arg1 == p.iterationStatePool[rangeindex + 1] ; assert [same-pool] arg0 == p ; Gspawned = Gspawned + 1
//@   loop 0 invariant -1 <= rangeindex && rangeindex < len(p.iterationStatePool) && Gspawned == rangeindex + 1 && Gwg == p.numWorkers && p.workerCtxCancel != nil && wfContinuousPool(p)
//@   modifies p.workerCtxCancel, Gspawned, Gwg
//@   ensures [spawned] Gspawned == p.numWorkers && Gwg == p.numWorkers
//@   ensures [cancel] p.workerCtxCancel != nil
//@
//@ ghost var G2cancelled bool
//@ func (*TriggerPool).Trigger
//@   props C09 C02 C05
//@   requires wfTriggerPool(p) && ctx != nil
//@   ghost after call invoke:Err : G2cancelled = (ret0 != nil)
//@   ghost before call (*TriggerPool).sendJobsForExecution : assert [unchanged] arg1 == numJobs && arg0 == p
//@   ensures [every-live-tick-supersedes] (!G2cancelled && (numJobs <= 0 || !old(p.stopWorkers))) ==> (p.jobsToExecute.num == numJobs && (limitReached(p.manager) ? G2drops == old(G2drops) : G2drops == old(G2drops) + max(0, old(p.jobsToExecute.num))))
//@   ensures [cancelled-or-stopped-tick-ignored] (G2cancelled || (numJobs > 0 && old(p.stopWorkers))) ==> (p.jobsToExecute.num == old(p.jobsToExecute.num) && G2drops == old(G2drops))
//@   modifies G2drops, G2cancelled, p.jobsToExecute.num, GMiter, p.manager.activeScenario.progress.successfulIterationDurations.running, p.manager.activeScenario.progress.failedIterationDurations.running,
//@            p.manager.activeScenario.progress.droppedIterationCount, NrecS, NrecF, NrecD, SumS, SumF, MinS, MinF, MaxS, MaxF
//@   ensures [wf] wfTriggerPool(p)
//@
//@ // C04 (no lost wake-up, sender side): whenever a new count is installed the waiting workers are woken afterwards
//@ ghost var G4installed bool
//@ ghost var G4woken bool
//@ // C02 (supersede): the requests still pending when a new count arrives are reported dropped at that moment, each
//@ // exactly once, and the new count replaces them
//@ func (*TriggerPool).sendJobsForExecution
//@   props C02 C05 C09 C04 C03
//@   requires wfTriggerPool(p)
//@   assert before call (*jobCounter).set : [new-count-installed-under-the-condition-lock] heldLocker(p.jobsAvailableCond.L)
//@   assert before call (*Cond).Broadcast : [workers-woken-under-the-condition-lock] heldLocker(p.jobsAvailableCond.L)
//@   ghost at entry : G4installed = false ; G4woken = false
//@   ghost after call (*jobCounter).set : G4installed = true ; G4woken = false
//@   ghost after call (*Cond).Broadcast : G4woken = true
//@   ensures {C04} [every-installed-count-is-followed-by-a-broadcast] G4installed ==> G4woken
//@   modifies G2drops, p.jobsToExecute.num, GMiter, p.manager.activeScenario.progress.successfulIterationDurations.running, p.manager.activeScenario.progress.failedIterationDurations.running,
//@            p.manager.activeScenario.progress.droppedIterationCount, NrecS, NrecF, NrecD, SumS, SumF, MinS, MinF, MaxS, MaxF
//@   loop 0 invariant (numJobs <= 0 || !old(p.stopWorkers)) && wfTriggerPool(p) && 0 <= rangeiter && rangeiter < jobsDiscarded && p.manager == old(p.manager) && p.manager.activeScenario == old(p.manager.activeScenario) && p.manager.activeScenario.progress == old(p.manager.activeScenario.progress) && G2drops == old(G2drops) + rangeiter && NrecS == old(NrecS) && NrecF == old(NrecF) && p.jobsToExecute.num == numJobs
//@   ensures [wf] wfTriggerPool(p)
//@   ensures [replaced] (numJobs <= 0 || !old(p.stopWorkers)) ==> p.jobsToExecute.num == numJobs
//@   ensures [superseded-dropped] NrecS == old(NrecS) && NrecF == old(NrecF) && ((numJobs <= 0 || !old(p.stopWorkers)) && !limitReached(p.manager) ==> G2drops == old(G2drops) + max(0, old(p.jobsToExecute.num)))
//@   ensures [refused-once-stopped] (numJobs > 0 && old(p.stopWorkers)) ==> (p.jobsToExecute.num == old(p.jobsToExecute.num) && G2drops == old(G2drops))
//@   ensures [limit-discards-are-silent] limitReached(p.manager) ==> G2drops == old(G2drops)
//@
//@ // ---- C02 under interleaving (variant @conc): a tick races with the shutdown path. G2pool is the pool under
//@ // discussion; the environment (fnspec poolEnv) is every other thread of that pool: workers take pending requests
//@ // (the count only goes down, possibly below zero), and the stop path sets the stop flag and, holding the condition
//@ // lock, drains the pending count; G2stopDone becomes true at the instant that drain happened. Claim Q: once the stop
//@ // path has drained, no request is pending any more (a later tick must not install new ones: they would be neither
//@ // started nor reported dropped).
//@ ghost var G2pool *TriggerPool
//@ ghost var G2stopDone bool
//@ pred stoppedMeansEmpty(p *TriggerPool) = G2stopDone ==> p.jobsToExecute.num <= 0
//@
//@ fnspec poolEnv(p *TriggerPool)
//@   modifies p.jobsToExecute.num, p.stopWorkers, G2stopDone
//@   ensures (old(G2stopDone) ==> G2stopDone) && (old(p.stopWorkers) ==> p.stopWorkers) && (G2stopDone ==> p.stopWorkers)
//@   ensures p.jobsToExecute.num <= max(old(p.jobsToExecute.num), 0)
//@   ensures (G2stopDone && !old(G2stopDone)) ==> p.jobsToExecute.num <= 0
//@   ensures heldLocker(p.jobsAvailableCond.L) ==> G2stopDone == old(G2stopDone)
//@
//@ ghost var G2atSwap bool
//@ func (*jobCounter).set @conc
//@   props C02
//@   interference poolEnv(G2pool)
//@   requires G2pool != nil && w == G2pool.jobsToExecute && (G2stopDone ==> G2pool.stopWorkers)
//@   ghost after call (*Int64).Swap : G2atSwap = G2stopDone
//@   modifies G2pool.jobsToExecute.num, G2pool.stopWorkers, G2stopDone, G2atSwap
//@   ensures [installed] G2pool.jobsToExecute.num <= max(n, 0)
//@   ensures [monotone] (old(G2stopDone) ==> G2atSwap) && (G2atSwap ==> G2stopDone) && (old(G2pool.stopWorkers) ==> G2pool.stopWorkers) && (G2stopDone ==> G2pool.stopWorkers)
//@   ensures [stop-needs-the-lock] heldLocker(G2pool.jobsAvailableCond.L) ==> (G2stopDone == old(G2stopDone) && G2atSwap == old(G2stopDone))
//@   ensures [drained-if-stopped-after-the-swap] (G2stopDone && !G2atSwap) ==> G2pool.jobsToExecute.num <= 0
//@
//@ func (*TriggerPool).running @conc
//@   props C02
//@   interference poolEnv(G2pool)
//@   requires p != nil && p == G2pool && (G2stopDone ==> p.stopWorkers) && stoppedMeansEmpty(p)
//@   modifies p.jobsToExecute.num, p.stopWorkers, G2stopDone
//@   ensures [seen-running-means-not-drained-then] result ==> (heldLocker(p.jobsAvailableCond.L) ==> !G2stopDone)
//@   ensures [monotone] (old(G2stopDone) ==> G2stopDone) && (old(p.stopWorkers) ==> p.stopWorkers) && (G2stopDone ==> p.stopWorkers) && stoppedMeansEmpty(p)
//@   ensures [stop-needs-the-lock] heldLocker(p.jobsAvailableCond.L) ==> G2stopDone == old(G2stopDone)
//@
//@ func (*PoolManager).MaxIterationsReached @conc
//@   props C02
//@   interference poolEnv(G2pool)
//@   requires m != nil && G2pool != nil && (G2stopDone ==> G2pool.stopWorkers)
//@   modifies G2pool.jobsToExecute.num, G2pool.stopWorkers, G2stopDone
//@   ensures [env] (old(G2stopDone) ==> G2stopDone) && (old(G2pool.stopWorkers) ==> G2pool.stopWorkers) && (G2stopDone ==> G2pool.stopWorkers)
//@   ensures [env-count] G2pool.jobsToExecute.num <= max(old(G2pool.jobsToExecute.num), 0) && ((G2stopDone && !old(G2stopDone)) ==> G2pool.jobsToExecute.num <= 0)
//@
//@ func (*ActiveScenario).RecordDroppedIteration @conc
//@   props C02
//@   trusted the verified base contract shows that recording a drop touches only the statistics and the metrics, never the pool; under interference the pool changes only as poolEnv allows
//@   requires G2pool != nil && s != nil
//@   modifies GMiter, s.progress.successfulIterationDurations.running, s.progress.failedIterationDurations.running, s.progress.droppedIterationCount,
//@            NrecS, NrecF, NrecD, SumS, SumF, MinS, MinF, MaxS, MaxF, G2drops, G2pool.jobsToExecute.num, G2pool.stopWorkers, G2stopDone
//@   ensures [env] (old(G2stopDone) ==> G2stopDone) && (old(G2pool.stopWorkers) ==> G2pool.stopWorkers) && (G2stopDone ==> G2pool.stopWorkers)
//@   ensures [env-count] G2pool.jobsToExecute.num <= max(old(G2pool.jobsToExecute.num), 0) && ((G2stopDone && !old(G2stopDone)) ==> G2pool.jobsToExecute.num <= 0)
//@
//@ func (*TriggerPool).sendJobsForExecution @conc
//@   props C02
//@   interference poolEnv(G2pool)
//@   requires p != nil && p == G2pool && p.jobsAvailableCond != nil && (G2stopDone ==> p.stopWorkers) && stoppedMeansEmpty(p) && p.manager != nil && p.manager.activeScenario != nil
//@   modifies GMiter, p.manager.activeScenario.progress.successfulIterationDurations.running, p.manager.activeScenario.progress.failedIterationDurations.running,
//@            p.manager.activeScenario.progress.droppedIterationCount, NrecS, NrecF, NrecD, SumS, SumF, MinS, MinF, MaxS, MaxF, G2drops,
//@            p.jobsToExecute.num, p.stopWorkers, G2stopDone, G2atSwap
//@   loop 0 invariant (G2stopDone ==> p.stopWorkers) && stoppedMeansEmpty(p) && p == G2pool && p.manager != nil && p.manager.activeScenario != nil
//@   ensures [no-request-installed-after-the-drain] stoppedMeansEmpty(p) && (G2stopDone ==> p.stopWorkers)
//@
//@ func (*TriggerPool).Trigger @conc
//@   props C02
//@   interference poolEnv(G2pool)
//@   requires p != nil && p == G2pool && ctx != nil && p.jobsAvailableCond != nil && (G2stopDone ==> p.stopWorkers) && stoppedMeansEmpty(p) && p.manager != nil && p.manager.activeScenario != nil
//@   modifies GMiter, p.manager.activeScenario.progress.successfulIterationDurations.running, p.manager.activeScenario.progress.failedIterationDurations.running,
//@            p.manager.activeScenario.progress.droppedIterationCount, NrecS, NrecF, NrecD, SumS, SumF, MinS, MinF, MaxS, MaxF, G2drops,
//@            p.jobsToExecute.num, p.stopWorkers, G2stopDone, G2atSwap
//@   ensures [no-request-installed-after-the-drain] stoppedMeansEmpty(p)
