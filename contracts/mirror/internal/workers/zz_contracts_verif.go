//go:build verif

// Contracts for package workers (comment-only; read by /verif/bin/govc, see /verif/DESIGN.md §2.3).
package workers

//@ globalinv {C03} errMaxIterationsReached != nil
//@
//@ // ---- C03: max-iterations is a hard ceiling; ids unique and gapless.
//@ // NextIteration is one atomic step `issue` on the shared counter: iteration' = iteration + 1, and the id handed
//@ // out is the new counter value unless it exceeds the limit.
//@ func (*PoolManager).NextIteration
//@   props C03
//@   requires m.iteration < 18446744073709551615
//@   modifies m.iteration
//@   ensures [step] m.iteration == old(m.iteration) + 1
//@   ensures [issued] (m.maxIterations == 0 || m.iteration <= m.maxIterations) ==> (result.1 == nil && result.0 == m.iteration)
//@   ensures [refused] (m.maxIterations > 0 && m.iteration > m.maxIterations) ==> (result.1 != nil && result.0 == 0)
//@
//@ func (*PoolManager).MaxIterationsReached
//@   props C03 C05
//@   modifies nothing
//@   ensures result <==> (m.maxIterations > 0 && m.iteration > m.maxIterations)
//@
//@ func New
//@   props C03
//@   ensures result != nil && result.maxIterations == maxIterations && result.iteration == 0 && result.activeScenario == activeScenario
//@
//@ // History lemma: a counter that only moves by `issue` steps hands out pairwise distinct, gapless ids 1..k, k <= N.
//@ lemma idsDistinct
//@   props C03
//@   vars c1 int, c2 int, max int, id1 int, id2 int
//@   hyp 0 <= c1 && c1 < c2 && max >= 0
//@   hyp (max == 0 || c1 + 1 <= max) && id1 == c1 + 1
//@   hyp (max == 0 || c2 + 1 <= max) && id2 == c2 + 1
//@   goal id1 != id2 && id1 >= 1 && id1 < id2 && (max > 0 ==> id2 <= max)
//@
//@ lemma idsGapless
//@   props C03
//@   vars c int, max int, id int
//@   hyp 0 <= c && max >= 0 && (max == 0 || c + 1 <= max) && id == c + 1
//@   goal id == c + 1 && (max > 0 && c >= max ==> false)
