//go:build verif

// Contracts for package logutils (comment-only; read by /verif/bin/govc, see /verif/DESIGN.md §2.3).
package logutils

//@ func NewLogConfigFromSettings
//@   props C14 C08 C06
//@   trusted builds a logging configuration from environment settings; no effect on modelled state
//@   modifies nothing
