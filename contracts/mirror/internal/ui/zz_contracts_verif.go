//go:build verif

// Contracts for package ui (comment-only; read by /verif/bin/govc, see /verif/DESIGN.md §2.3).
package ui

//@ func (*Output).Display
//@   props C15 C05 C06 C19
//@   trusted printing or logging a message has no effect on the modelled state and does not panic (the Outputable implementations only format their own data)
//@   requires o != nil
//@   modifies nothing
//@
//@ func NewOutput
//@   props C14 C08 C06
//@   modifies nothing
//@   ensures result != nil && fresh(result)
