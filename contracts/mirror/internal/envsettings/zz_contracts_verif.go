//go:build verif

// Contracts for package envsettings (comment-only; read by /verif/bin/govc, see /verif/DESIGN.md §2.3).
package envsettings

//@ func (Fluentd).Present
//@   props C14 C08
//@   modifies nothing
