//go:build verif

// Contracts for package log (comment-only; read by /verif/bin/govc, see /verif/DESIGN.md §2.3).
package log

//@ func NewLogger
//@   props C14 C08 C06 C07
//@   trusted builds a slog logger over the given writer (handler construction): never nil, no effect on modelled state
//@   modifies nothing
//@   ensures result != nil
//@
//@ func IterationAttr
//@   props C07 C06
//@   modifies nothing
//@
//@ func StackTraceAttr
//@   props C07 C06
//@   modifies nothing
//@
//@ func ErrorAnyAttr
//@   props C07 C06
//@   arbitrary err
//@   modifies nothing
//@
//@ func ErrorStringAttr
//@   props C07 C06
//@   modifies nothing
//@
//@ func ErrorAttr
//@   props C07 C06
//@   arbitrary err
//@   maypanic arbitrary
//@   requires err != nil
//@   modifies nothing
//@
//@ // ---- C19: the structured iteration_stats group states each count it is given under its own key
//@ func IterationStatsGroup
//@   props C19
//@   modifies nothing
//@   assert before call slog.Uint64 #0 : [started] arg0 == "started" && arg1 == started
//@   assert before call slog.Uint64 #1 : [successful] arg0 == "successful" && arg1 == successful
//@   assert before call slog.Uint64 #2 : [failed] arg0 == "failed" && arg1 == failed
//@   assert before call slog.Uint64 #3 : [dropped] arg0 == "dropped" && arg1 == dropped
//@   assert before call slog.Duration : [period] arg0 == "period" && arg1 == period
//@
//@ func ScenarioAttr
//@   props C14 C08 C06
//@   modifies nothing
//@
//@ func NewSlogLogrusLogger
//@   props C14 C08 C06
//@   trusted wraps a logger; no effect on modelled state
//@   modifies nothing
//@   ensures result != nil
