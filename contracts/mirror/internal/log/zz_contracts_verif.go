//go:build verif

// Contracts for package log (comment-only; read by /verif/bin/govc, see /verif/DESIGN.md §2.3).
package log

//@ func IterationAttr
//@   props C07 C06
//@   modifies nothing
//@
//@ func StackTraceAttr
//@   props C07 C06
//@   modifies nothing
//@
//@ func ErrorAnyAttr
//@   props C07 C06
//@   modifies nothing
//@
//@ func ErrorStringAttr
//@   props C07 C06
//@   modifies nothing
//@
//@ func ErrorAttr
//@   props C07 C06
//@   requires err != nil
//@   modifies nothing
