//go:build verif

// Contracts for package xcontext (comment-only; read by /verif/bin/govc, see /verif/DESIGN.md §2.3).
package xcontext

//@ func Detach
//@   props C05 C06
//@   modifies nothing
//@   ensures result != nil
