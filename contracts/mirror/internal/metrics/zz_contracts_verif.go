//go:build verif

// Contracts for package metrics (comment-only; read by /verif/bin/govc, see /verif/DESIGN.md §2.3).
package metrics

//@ // ghost: number of samples observed per result label on the iteration metric / the setup metric
//@ ghost var GMiter map[string]int
//@ ghost var GMsetup map[string]int
//@
//@ func Result
//@   props C01 C07 C16 C17
//@   modifies nothing
//@   ensures result == (failed ? "fail" : "success")
//@
//@ func (ResultType).String
//@   props C01 C16
//@   modifies nothing
//@   ensures result == r
//@
//@ func (*Metrics).RecordIterationResult
//@   fp-inexact
//@   props C01 C16
//@   requires metrics.Iteration != nil
//@   modifies GMiter
//@   ghost before call WithLabelValues #0 : GMiter[result] = GMiter[result] + 1
//@   assert before call WithLabelValues #0 : [labels] len(arg1) == 3 + len(metrics.staticMetricLabelValues) && arg1[0] == name && arg1[1] == "iteration" && arg1[2] == result
//@   assert before call WithLabelValues #0 : [static] forall j int :: 0 <= j && j < len(metrics.staticMetricLabelValues) ==> arg1[3 + j] == metrics.staticMetricLabelValues[j]
//@   ensures [one-sample] metrics.IterationMetricsEnabled ==> GMiter[result] == old(GMiter[result]) + 1
//@   ensures [only-that] forall k string :: k != result ==> GMiter[k] == old(GMiter[k])
//@   ensures [disabled] !metrics.IterationMetricsEnabled ==> GMiter[result] == old(GMiter[result])
//@
//@ func (*Metrics).RecordSetupResult
//@   fp-inexact
//@   props C16
//@   requires metrics.Setup != nil
//@   modifies GMsetup
//@   ghost before call WithLabelValues #0 : GMsetup[result] = GMsetup[result] + 1
//@   assert before call WithLabelValues #0 : [labels] len(arg1) == 2 + len(metrics.staticMetricLabelValues) && arg1[0] == name && arg1[1] == result
//@   assert before call WithLabelValues #0 : [static] forall j int :: 0 <= j && j < len(metrics.staticMetricLabelValues) ==> arg1[2 + j] == metrics.staticMetricLabelValues[j]
//@   ensures [one-sample] GMsetup[result] == old(GMsetup[result]) + 1
//@   ensures [only-that] forall k string :: k != result ==> GMsetup[k] == old(GMsetup[k])
//@
//@ func (*Metrics).RecordIterationStage
//@   fp-inexact
//@   props C16 C01
//@   requires metrics.Iteration != nil
//@   modifies nothing
//@   assert before call WithLabelValues #0 : [labels] len(arg1) == 3 + len(metrics.staticMetricLabelValues) && arg1[0] == name && arg1[1] == stage && arg1[2] == result
//@   assert before call WithLabelValues #0 : [static] forall j int :: 0 <= j && j < len(metrics.staticMetricLabelValues) ==> arg1[3 + j] == metrics.staticMetricLabelValues[j]
//@
//@ // ---- C16: label names and static label values are both enumerated in the increasing order of the static map's
//@ // keys, so name i is paired with its own value. nthKey(m, i) is the i-th key of m in increasing order. The step
//@ // "a strictly increasing enumeration of a key set is unique" (Mathlib: List.eq_of_perm_of_sorted) is the one
//@ // explicit assumption below; everything else about the loops is proved.
//@ ghost var G16setupNames []string
//@ ghost var G16iterNames []string
//@
//@ func sortedKeys
//@   props C16
//@   modifies nothing
//@   loop 0 invariant [fresh] fresh(keys)
//@   loop 0 invariant [keys] forall j int :: 0 <= j && j < len(keys) ==> indom(staticMetrics, keys[j]) && visited(keys[j])
//@   ghost after call sort.Strings : assume forall j int :: 0 <= j && j < len(keys) ==> keys[j] == nthKey(staticMetrics, j) && indom(staticMetrics, keys[j])
//@   ghost after call sort.Strings : assume len(keys) == len(staticMetrics)
//@   ensures [enumeration] len(result) == len(staticMetrics) && (forall j int :: 0 <= j && j < len(result) ==> result[j] == nthKey(staticMetrics, j) && indom(staticMetrics, result[j]))
//@   ensures [fresh] fresh(result)
//@
//@ func getStaticMetricLabelKeys
//@   props C16
//@   modifies nothing
//@   ensures [enumeration] len(result) == len(staticMetrics) && (forall j int :: 0 <= j && j < len(result) ==> result[j] == nthKey(staticMetrics, j))
//@
//@ func getStaticMetricLabelValues
//@   props C16
//@   modifies nothing
//@   loop 0 invariant [shape] -1 <= rangeindex && rangeindex < len(rangeexpr) && len(data) == rangeindex + 1 && fresh(data)
//@   loop 0 invariant [keys] len(rangeexpr) == len(staticMetrics) && (forall j int :: 0 <= j && j < len(rangeexpr) ==> rangeexpr[j] == nthKey(staticMetrics, j) && indom(staticMetrics, rangeexpr[j]))
//@   loop 0 invariant [values] forall j int :: 0 <= j && j <= rangeindex ==> data[j] == staticMetrics[nthKey(staticMetrics, j)]
//@   ensures [own-values] len(result) == len(staticMetrics) && (forall j int :: 0 <= j && j < len(result) ==> result[j] == staticMetrics[nthKey(staticMetrics, j)])
//@
//@ func buildMetrics
//@   props C16
//@   modifies G16setupNames, G16iterNames
//@   ghost before call prometheus.NewSummaryVec #0 : G16setupNames = arg1
//@   ghost before call prometheus.NewSummaryVec #1 : G16iterNames = arg1
//@   ensures [setup-names] len(G16setupNames) == 2 + len(staticMetrics) && G16setupNames[0] == "test" && G16setupNames[1] == "result" &&
//@           (forall j int :: 0 <= j && j < len(staticMetrics) ==> G16setupNames[2 + j] == nthKey(staticMetrics, j))
//@   ensures [iteration-names] len(G16iterNames) == 3 + len(staticMetrics) && G16iterNames[0] == "test" && G16iterNames[1] == "stage" && G16iterNames[2] == "result" &&
//@           (forall j int :: 0 <= j && j < len(staticMetrics) ==> G16iterNames[3 + j] == nthKey(staticMetrics, j))
//@   ensures [built] result != nil && fresh(result)
//@
//@ func NewInstance
//@   props C16
//@   requires registry != nil
//@   modifies G16setupNames, G16iterNames
//@   ensures [paired] len(result.staticMetricLabelValues) == len(staticMetrics) && len(G16setupNames) == 2 + len(staticMetrics) && len(G16iterNames) == 3 + len(staticMetrics) &&
//@           (forall j int :: 0 <= j && j < len(staticMetrics) ==> result.staticMetricLabelValues[j] == staticMetrics[G16setupNames[2 + j]] &&
//@                                                               result.staticMetricLabelValues[j] == staticMetrics[G16iterNames[3 + j]])
//@   ensures [fixed-names] G16setupNames[0] == "test" && G16setupNames[1] == "result" && G16iterNames[0] == "test" && G16iterNames[1] == "stage" && G16iterNames[2] == "result"
//@   ensures [enabled] result != nil && result.IterationMetricsEnabled == iterationMetricsEnabled && result.Registry == registry
//@
//@ // every run starts from empty metrics: Reset clears the iteration vector AND the setup vector, whatever the
//@ // configuration (the setup sample is recorded even when iteration metrics are disabled)
//@ ghost var GMresets int
//@ func (*Metrics).Reset
//@   props C16 C06 C05
//@   requires metrics != nil && metrics.Iteration != nil && metrics.Setup != nil
//@   ghost at entry : GMresets = 0
//@   ghost before call (*MetricVec).Reset : GMresets = GMresets + 1
//@   modifies nothing
//@   ensures [both-vectors-cleared] GMresets == 2
