//go:build verif

// Contracts for package metrics (comment-only; read by /verif/bin/govc, see /verif/DESIGN.md §2.3).
package metrics

//@ // ghost: number of samples observed per result label on the iteration metric / the setup metric
//@ ghost var GMiter map[string]int
//@ ghost var GMsetup map[string]int
//@
//@ func Result
//@   props C01 C07 C16 C17
//@   modifies nothing
//@   ensures result == (failed ? "fail" : "success")
//@
//@ func (ResultType).String
//@   props C01 C16
//@   modifies nothing
//@   ensures result == r
//@
//@ func (*Metrics).RecordIterationResult
//@   fp-inexact
//@   props C01 C16
//@   requires metrics.Iteration != nil
//@   modifies GMiter
//@   ghost before call WithLabelValues #0 : GMiter[result] = GMiter[result] + 1
//@   assert before call WithLabelValues #0 : [labels] len(arg1) == 3 + len(metrics.staticMetricLabelValues) && arg1[0] == name && arg1[1] == "iteration" && arg1[2] == result
//@   assert before call WithLabelValues #0 : [static] forall j int :: 0 <= j && j < len(metrics.staticMetricLabelValues) ==> arg1[3 + j] == metrics.staticMetricLabelValues[j]
//@   ensures [one-sample] metrics.IterationMetricsEnabled ==> GMiter[result] == old(GMiter[result]) + 1
//@   ensures [only-that] forall k string :: k != result ==> GMiter[k] == old(GMiter[k])
//@   ensures [disabled] !metrics.IterationMetricsEnabled ==> GMiter[result] == old(GMiter[result])
//@
//@ func (*Metrics).RecordSetupResult
//@   fp-inexact
//@   props C16
//@   requires metrics.Setup != nil
//@   modifies GMsetup
//@   ghost before call WithLabelValues #0 : GMsetup[result] = GMsetup[result] + 1
//@   assert before call WithLabelValues #0 : [labels] len(arg1) == 2 + len(metrics.staticMetricLabelValues) && arg1[0] == name && arg1[1] == result
//@   assert before call WithLabelValues #0 : [static] forall j int :: 0 <= j && j < len(metrics.staticMetricLabelValues) ==> arg1[2 + j] == metrics.staticMetricLabelValues[j]
//@   ensures [one-sample] GMsetup[result] == old(GMsetup[result]) + 1
//@   ensures [only-that] forall k string :: k != result ==> GMsetup[k] == old(GMsetup[k])
//@
//@ func (*Metrics).RecordIterationStage
//@   fp-inexact
//@   props C16
//@   requires metrics.Iteration != nil
//@   modifies nothing
//@   assert before call WithLabelValues #0 : [labels] len(arg1) == 3 + len(metrics.staticMetricLabelValues) && arg1[0] == name && arg1[1] == stage && arg1[2] == result
//@   assert before call WithLabelValues #0 : [static] forall j int :: 0 <= j && j < len(metrics.staticMetricLabelValues) ==> arg1[3 + j] == metrics.staticMetricLabelValues[j]
